package main

import (
	"fmt"
	"path/filepath"
	"reflect"
	"sort"
	"strings"
	"sync/atomic"
	"time"

	"github.com/xujiajun/nutsdb"
	"github.com/xujiajun/nutsdb/ds/zset"
)

// injector fails the n-th matching file operation while armed.
type injector struct {
	armed   bool
	n       int  // fail the n-th event (1-based) among all events while armed
	partial bool // for writes: leave a torn prefix behind
	count   int  // events seen while armed
	fired   *FSEvent
	root    string
	rngPick func(int) int
	// noSync: sync events are neither counted nor failed.  A sync error after the completed write of a
	// transaction's last record leaves the outcome in doubt (C12 decides that case); a check that needs
	// transactions that certainly failed sets this.
	noSync bool
	// onlyWrites: only write events are counted (fail the n-th record write whatever else happens in between)
	onlyWrites bool
	// afterWrites > 0: fail the first sync that follows the afterWrites-th record write (the sync after a commit's
	// last record, when the caller knows how many records the commit has); n is ignored then
	afterWrites int
	writes      int
	// onlySyncs: only sync events are counted (fail the n-th sync whatever else happens in between)
	onlySyncs bool
}

func (in *injector) onEvent(ev *FSEvent) (bool, int, error) {
	if !in.armed || (in.noSync && ev.Op == "sync") || (in.onlyWrites && ev.Op != "write") || (in.onlySyncs && ev.Op != "sync") {
		return false, 0, nil
	}
	if in.afterWrites > 0 {
		if ev.Op == "write" {
			in.writes++
		}
		if ev.Op != "sync" || in.writes < in.afterWrites || in.fired != nil {
			return false, 0, nil
		}
		e := *ev
		in.fired = &e
		atomic.StoreInt32(&faultInjectedInCase, 1)
		return true, 0, errInjected
	}
	in.count++
	if in.count != in.n || in.fired != nil {
		return false, 0, nil
	}
	e := *ev
	in.fired = &e
	atomic.StoreInt32(&faultInjectedInCase, 1)
	switch ev.Op {
	case "write":
		n := 0
		if in.partial && len(ev.Data) > 1 {
			lens := tornLengths(ev.Data, strings.HasSuffix(ev.Path, ".dat"))
			n = lens[in.rngPick(len(lens))]
			// a torn prefix whose missing rest is all zero bytes is, on a zero-filled segment, byte for byte the
			// complete write (a record ending in a key such as "a\x00"): that write did not fail in any observable
			// way, so it is not used as a "failed write" - the longest prefix that cuts off a non-zero byte is
			for n > 0 && allZero(ev.Data[n:]) {
				n--
			}
			partialWriteToFile(filepath.Join(in.root, ev.Path), ev.Off, ev.Data, n)
		}
		return true, n, errInjected
	default: // open truncate sync close remove
		return true, 0, errInjected
	}
}

func allZero(b []byte) bool {
	for _, x := range b {
		if x != 0 {
			return false
		}
	}
	return true
}

// txMethodArgs builds arguments for an exported Tx method by parameter type.
func txMethodArgs(mt reflect.Type, u *Universe, pick func(int) int) []reflect.Value {
	var args []reflect.Value
	nIn := mt.NumIn()
	seenBytes := 0
	for i := 1; i < nIn; i++ { // 0 is the receiver
		t := mt.In(i)
		if mt.IsVariadic() && i == nIn-1 {
			// at least one variadic item so that the call really attempts a write
			args = append(args, reflect.ValueOf([]byte("m1")))
			if pick(2) == 0 {
				args = append(args, reflect.ValueOf([]byte("m2")))
			}
			break
		}
		switch t.Kind() {
		case reflect.String:
			args = append(args, reflect.ValueOf(u.Buckets[pick(len(u.Buckets))]))
		case reflect.Slice: // []byte
			var b []byte
			switch seenBytes {
			case 0:
				pool := append(append([][]byte{}, u.KVKeys[:2]...), u.ListKeys[0], u.SetKeys[0], []byte("a"))
				b = pool[pick(len(pool))]
			default:
				b = []byte("val")
			}
			seenBytes++
			args = append(args, reflect.ValueOf(b))
		case reflect.Int:
			args = append(args, reflect.ValueOf([]int{0, 1, -1, 2}[pick(4)]))
		case reflect.Float64:
			args = append(args, reflect.ValueOf([]float64{0, 1, -1, 2.5}[pick(4)]))
		case reflect.Uint32:
			args = append(args, reflect.ValueOf(uint32(0)))
		case reflect.Uint64:
			args = append(args, reflect.ValueOf(uint64(1)))
		case reflect.Ptr:
			if pick(2) == 0 {
				args = append(args, reflect.Zero(t))
			} else {
				args = append(args, reflect.ValueOf(&zset.GetByScoreRangeOptions{Limit: 1}))
			}
		default:
			args = append(args, reflect.Zero(t))
		}
	}
	return args
}

// callEveryTxMethod calls every exported method of tx (except Commit/Rollback). It returns, per method, whether the
// call reported an error, and any panic.
// callBudget bounds the instrumented loops of one API call (see loopBudget); installed by runC12 / runC20.
var callBudget = &loopBudget{limit: 100000}

func callEveryTxMethod(tx *nutsdb.Tx, u *Universe, pick func(int) int) (noErr []string, panics []string, called int) {
	v := reflect.ValueOf(tx)
	t := v.Type()
	errT := reflect.TypeOf((*error)(nil)).Elem()
	for i := 0; i < t.NumMethod(); i++ {
		m := t.Method(i)
		if m.Name == "Commit" || m.Name == "Rollback" {
			continue
		}
		args := txMethodArgs(m.Type, u, pick)
		func() {
			defer func() {
				if p := recover(); p != nil {
					panics = append(panics, m.Name+": "+panicClass(p))
				}
			}()
			callBudget.reset()
			outs := v.Method(i).Call(args)
			called++
			if n := len(outs); n > 0 && outs[n-1].Type().Implements(errT) {
				if outs[n-1].IsNil() {
					noErr = append(noErr, m.Name)
				}
			}
		}()
	}
	return
}

func runC12(c *CaseCtx) {
	r := c.Rng
	cfg := randCfg(r, []int{0, 0, 1, 2}, 150, 700)
	ds := cfg.Mode == 0
	class := "faults"
	nb := 2
	if cfg.Mode == 2 {
		nb = 1
		class += "-sparse"
	}
	u := defaultUniverse(r, nb, 6+r.Intn(8), ds)
	run := NewRunner(c, cfg, u, class)
	mon := NewFSMon(run.Dir)
	inj := &injector{root: run.Dir, rngPick: r.Intn}
	mon.OnEvent = inj.onEvent
	mon.Install()
	defer mon.Uninstall()
	nutsdb.VerifSetYieldHook(callBudget.hook)
	defer nutsdb.VerifSetYieldHook(nil)
	c.Log("cfg %s buckets=%v", cfg, u.Buckets)
	if !run.Open() {
		return
	}
	defer run.Close()
	g := &Gen{R: r, U: u, Cfg: cfg, KV: true, List: ds, Set: ds, ZSet: ds, TTL: true, MaxOps: 5}
	// Merge variant (RAM modes): Merge runs in the same process after failed transactions; records of a transaction
	// that failed must stay dead through it. Without lists and positional sorted-set removals (what Merge does to
	// those is the recorded finding of C15/C16).
	mergeVariant := cfg.Mode != 2 && c.Case%4 == 3
	if mergeVariant {
		g.List, g.NoZPop = false, true
		class = "faults-merge"
		run.Class = class
	}
	nsteps := 12 + r.Intn(tier(c.Tier, 14, 30))
	mergeSoon := false // an I/O fault has just left records of a failed commit in the log
	mergeNow := false  // ... and nothing has been committed over them
	faultKinds := map[string]bool{}
	noEffect := func(label string) bool {
		if !run.CheckObs(label) {
			return false
		}
		if r.Intn(3) == 0 {
			if !run.Reopen() {
				return false
			}
			return run.CheckObs(label + "+reopen")
		}
		return true
	}
	for i := 0; i < nsteps && !run.Dead && !c.Violated(); i++ {
		if mergeVariant && i > 0 && (r.Intn(5) == 0 || mergeSoon && r.Intn(2) == 0 || mergeNow) && !run.WriteDead && run.Files() >= 2 {
			mergeSoon, mergeNow = false, false
			c.Log("merge (%d files)", run.Files())
			merr, p := mergeNoPanic(run)
			if p != "" {
				c.Violate("panic:Merge:"+p, class, "Merge panicked: "+p)
				break
			}
			if merr == nil {
				c.Stat("merges_succeeded", 1)
			}
			if !noEffect("after-merge") {
				break
			}
		}
		if run.WriteDead {
			// a commit was refused after an earlier injected fault: it must have had no effect, and a reopen must cure it
			if !run.CheckObs("after-refused-commit") || !run.Reopen() || !run.CheckObs("after-refused-commit+reopen") {
				break
			}
		}
		g.M = run.M
		x := r.Intn(100)
		switch {
		case x < 5 && cfg.Mode != 2 && len(u.KVKeys) >= 3:
			// a commit fails after its first record (the record stays in the log, uncommitted); the handle is closed and a
			// new one opened AT ONCE, and an unrelated transaction commits on it - all of it, if the machine allows,
			// within the millisecond in which the failed transaction began (transaction ids must stay unique across
			// handles of one process). The wait for a fresh millisecond only makes that more likely; no verdict
			// depends on it.
			for rep := 0; rep < 4 && !c.Violated() && !run.Dead; rep++ {
				b := g.bucket()
				kA, kB, kC := u.KVKeys[r.Intn(len(u.KVKeys))], u.KVKeys[r.Intn(len(u.KVKeys))], u.KVKeys[r.Intn(len(u.KVKeys))]
				g.M = run.M
				bad := TxSpec{Mode: "update", Ops: []Op{{K: "Put", B: b, Key: kA, Val: g.value(b, len(kA)+8)}, {K: "Put", B: b, Key: kB, Val: g.value(b, len(kB)+8)}}}
				good := TxSpec{Mode: "update", Ops: []Op{{K: "Put", B: g.bucket(), Key: kC, Val: g.value(b, len(kC)+8)}}}
				for t0 := time.Now().UnixNano() / 1e6; time.Now().UnixNano()/1e6 == t0; {
				}
				inj.armed, inj.n, inj.count, inj.fired, inj.partial, inj.onlyWrites = true, 2, 0, nil, false, true
				out := execTx(run.DB, bad)
				inj.armed, inj.onlyWrites = false, false
				var db2 *nutsdb.DB
				var oerr error
				var out2 TxOut
				if out.Err != nil && out.Panic == "" {
					run.DB.Close()
					if db2, oerr = openNoPanic(cfg.Options(run.Dir)); oerr == nil {
						out2 = execTx(db2, good)
					}
				}
				// bookkeeping after the time-critical part
				run.NTx += 2
				c.Log("tx %d (write error at its second record) %s; close+open; tx %d %s", run.NTx-1, bad.String(), run.NTx, good.String())
				c.Stat("quick_reopen_scenarios", 1)
				if out.Panic != "" {
					c.Violate("panic:tx:"+out.Panic, class, "panic in a commit with an injected write error: "+out.Panic)
					run.Dead = true
					break
				}
				if out.Err == nil {
					// the fault did not fire (single-record rotation ...): an ordinary committed transaction
					m := run.M.Clone()
					for k, o := range bad.Ops {
						m.Apply(o, out.Res[k])
					}
					run.M = m
					continue
				}
				if oerr != nil {
					c.Violate("open-failed:"+errClass(oerr.Error()), class, "Open right after a failed commit failed: "+oerr.Error())
					run.Dead = true
					break
				}
				run.DB = db2
				run.FaultSinceOpen = false
				if out2.Err != nil || out2.Panic != "" {
					c.Violate("commit-error:after-quick-reopen", class, fmt.Sprintf("commit on the new handle failed: %v %s", out2.Err, out2.Panic))
					break
				}
				m := run.M.Clone()
				for k, o := range good.Ops {
					m.Apply(o, out2.Res[k])
				}
				run.M = m
				faultKinds["quick-reopen"] = true
				if !run.CheckObs("after-quick-reopen") || !run.Reopen() || !run.CheckObs("after-quick-reopen+reopen") {
					break
				}
			}
		case x < 25: // ordinary committed transaction
			run.Tx(g.WriteTx(true), false)
			if r.Intn(4) == 0 {
				run.CheckObs("after-commit")
			}
		case x < 33: // fn returns an error after j operations, every j
			t := g.WriteTx(true)
			for j := 0; j <= len(t.Ops) && !c.Violated(); j++ {
				run.Tx(TxSpec{Mode: "fnerr", Ops: t.Ops[:j]}, false)
				c.Stat("faulty_transactions", 1)
			}
			faultKinds["fn-error"] = true
			noEffect("after-fn-error")
		case x < 40:
			t := g.WriteTx(true)
			t.Mode = "rollback"
			run.Tx(t, false)
			c.Stat("faulty_transactions", 1)
			faultKinds["rollback"] = true
			noEffect("after-rollback")
		case x < 50: // oversized entry at the first / a middle / the last position
			t := g.WriteTx(true)
			for _, pos := range []int{0, len(t.Ops) / 2, len(t.Ops)} {
				big := Op{K: "Put", B: g.bucket(), Key: g.pick(u.KVKeys), Val: make([]byte, int(cfg.Seg)-10)}
				ops := append(append(append([]Op{}, t.Ops[:pos]...), big), t.Ops[pos:]...)
				mode := "update"
				if r.Intn(3) == 0 {
					mode = "manual"
				}
				run.Tx(TxSpec{Mode: mode, Ops: ops}, true)
				c.Stat("faulty_transactions", 1)
				if c.Violated() {
					break
				}
			}
			faultKinds["oversize"] = true
			noEffect("after-oversize")
		case x < 75: // injected I/O error at the j-th file operation of the commit, j = 1, 2, ... until the commit gets through
			t0 := g.WriteTx(true)
			tplTx := false
			if mergeVariant && r.Intn(2) == 0 {
				tplTx = true
				// a transaction that overwrites a live key and creates a new one in the same bucket (what a later Merge
				// does with the records of such a transaction, had it failed, differs per record)
				b := g.bucket()
				var live, absent [][]byte
				for _, k := range u.KVKeys {
					if it := run.M.KV[b][string(k)]; it.live() {
						live = append(live, k)
					} else {
						absent = append(absent, k)
					}
				}
				if len(live) > 0 && len(absent) > 0 {
					k1, k2 := live[r.Intn(len(live))], absent[r.Intn(len(absent))]
					// the live version of k1 is written just before, so that it sits in the same segment as the records
					// of the faulted transaction (unless a rotation falls in between)
					run.Tx(TxSpec{Mode: "update", Ops: []Op{{K: "Put", B: b, Key: k1, Val: g.value(b, len(k1)+4)}}}, false)
					t0 = TxSpec{Mode: "update", Ops: []Op{{K: "Put", B: b, Key: k1, Val: g.value(b, len(k1)+4)}, {K: "Put", B: b, Key: k2, Val: g.value(b, len(k2)+4)}}}
					if r.Intn(2) == 0 {
						t0.Ops[0], t0.Ops[1] = t0.Ops[1], t0.Ops[0]
					}
				}
			}
			mergeSoon = true
			stopRetry := false
			// two-record template with SyncEnable: half of the time the first attempt fails exactly at the sync that
			// follows the second (last) record - the one fault position whose outcome is really in doubt
			lastSync := tplTx && cfg.Sync && len(t0.Ops) == 2 && r.Intn(2) == 0
			for j := 1; j <= 14 && !run.Dead && !c.Violated(); j++ {
				// every attempt writes its own values: a record left behind by a failed attempt is then
				// distinguishable from what a later, successful attempt commits
				t := TxSpec{Mode: t0.Mode, Ops: append([]Op{}, t0.Ops...)}
				for k := range t.Ops {
					switch t.Ops[k].K {
					case "Put", "PutTS", "ZAdd":
						v := append(append([]byte{}, t.Ops[k].Val...), []byte(fmt.Sprintf("#%d", j))...)
						if max := g.maxPayload(t.Ops[k].B, len(t.Ops[k].Key)+8); len(v) > max {
							v = v[len(v)-max:]
						}
						t.Ops[k].Val = v
					}
				}
				inj.armed, inj.n, inj.count, inj.fired, inj.partial = true, j, 0, nil, r.Intn(2) == 0
				inj.afterWrites, inj.writes = 0, 0
				if lastSync && j == 1 {
					inj.afterWrites = 2
				}
				before := run.M
				beforeObs := obsModel(before, u)
				// run against a scratch model first: the outcome decides which model survives
				out := execTx(run.DB, t)
				inj.armed, inj.afterWrites = false, 0
				run.NTx++
				c.Log("tx %d (fault at file operation #%d, partial=%v) %s", run.NTx, j, inj.partial, t.String())
				c.Stat("transactions", 1)
				if out.Panic != "" {
					c.Violate("panic:tx:"+out.Panic, class, fmt.Sprintf("panic in commit with injected fault: %s\n%s", out.Panic, firstN(out.Stack, 1200)))
					run.Dead = true
					break
				}
				if inj.fired == nil {
					// no fault fired: this was an ordinary transaction; replay it on the model
					m := run.M.Clone()
					for k, o := range t.Ops {
						if k < len(out.Res) {
							exp := m.Expect(o, true)
							if ok, kind := exp.Accepts(out.Res[k]); !ok {
								c.Violate("call:"+o.K+":"+kind, class, fmt.Sprintf("%s: got %s, model allows %s", o.String(), out.Res[k].String(), exp.String()))
							}
							m.Apply(o, out.Res[k])
						}
					}
					if out.Err != nil && run.FaultSinceOpen {
						run.WriteDead = true
						c.Stat("commits_refused_after_fault", 1)
					} else if out.Err != nil {
						c.Violate("commit-error:"+errClass(out.Err.Error()), class, fmt.Sprintf("transaction failed although no fault was injected: %v", out.Err))
					}
					if out.Committed {
						run.M = m
					}
					run.CheckObs("after-retry-commit")
					break
				}
				run.FaultSinceOpen = true
				if cfg.Mode == 2 {
					// sparse mode does not undo a commit that failed on an I/O error (known findings KF-SPARSE-FAULT*):
					// from the first injected I/O fault on, the history belongs to its own scenario class, so that the
					// findings stay attached to histories in which their cause occurred and every sparse history
					// without an I/O fault (fn errors, rollbacks, oversize, read-only) is still judged strictly
					class = "faults-sparse-after-io-fault"
					run.Class = class
				}
				c.Stat("faulty_transactions", 1)
				c.Stat("injected_"+inj.fired.Op, 1)
				if inj.partial && inj.fired.Op == "write" {
					c.Stat("injected_partial_writes", 1)
				}
				faultKinds["io-"+inj.fired.Op] = true
				where := fmt.Sprintf("injected %s error at file operation #%d (%s off=%d len=%d partial=%v) of the commit of %s (%s)",
					inj.fired.Op, j, inj.fired.Path, inj.fired.Off, len(inj.fired.Data), inj.partial, t.String(), cfg)
				if out.Err == nil {
					// the library swallowed the error: then the transaction must be fully in force
					m := run.M.Clone()
					for k, o := range t.Ops {
						if k < len(out.Res) {
							m.Apply(o, out.Res[k])
						}
					}
					run.M = m
					c.Stat("faults_swallowed", 1)
					if !run.CheckObs("after-swallowed-fault") {
						c.Note("%s", where)
					}
					break
				}
				if inj.fired.Op == "sync" {
					if lastSync && j == 1 {
						c.Stat("template_faults_at_the_last_sync", 1)
					}
					// outcome in doubt: all or nothing, in the process and after reopen
					m := run.M.Clone()
					for k, o := range t.Ops {
						if k < len(out.Res) {
							m.Apply(o, out.Res[k])
						}
					}
					afterObs := obsModel(m, u)
					got, _ := obsReal(run.DB, u)
					switch {
					case sameObs(got, beforeObs):
					case sameObs(got, afterObs):
						run.M = m
					default:
						c.Violate("in-doubt-partial:in-process:"+firstDiffCall(got, beforeObs), class, fmt.Sprintf("after %s the transaction is partially visible in the process:\n%s", where, diffObs(got, beforeObs)))
					}
					if !c.Violated() && !mergeVariant && cfg.Mode != 2 && r.Intn(2) == 0 {
						// the handle is kept: more committed transactions on it before any reopen. Either (a) one Put
						// whose record is exactly as long as the first record of the in-doubt transaction (other key
						// of the same length, value of the same length), or (b) single Puts until the segment has been
						// rotated away. They only write keys the in-doubt transaction did not touch, so after the reopen
						// the contents must be "before" or "after" the in-doubt transaction, plus these Puts.
						touched := map[string]bool{}
						for _, o := range t.Ops {
							touched[o.B+"\x00"+string(o.Key)] = true
						}
						var extra []Op
						first := t.Ops[0]
						if (first.K == "Put" || first.K == "PutTS") && r.Intn(4) != 0 {
							for _, k := range u.KVKeys {
								if len(k) == len(first.Key) && !touched[first.B+"\x00"+string(k)] {
									v := make([]byte, len(first.Val))
									for i := range v {
										v[i] = 1 // (not a letter: bytes of a value that end up where a header is expected are read as sizes)
									}
									extra = append(extra, Op{K: "Put", B: first.B, Key: k, Val: v})
									break
								}
							}
						}
						if len(extra) == 0 {
							files0 := run.Files()
							for n := 0; n < 14; n++ {
								k := u.KVKeys[r.Intn(len(u.KVKeys))]
								b := u.Buckets[r.Intn(len(u.Buckets))]
								if touched[b+"\x00"+string(k)] {
									continue
								}
								v := make([]byte, int(cfg.Seg)/6)
								for i := range v {
									v[i] = byte(1 + n)
								}
								extra = append(extra, Op{K: "Put", B: b, Key: k, Val: v})
							}
							_ = files0
						}
						mB, mA := before.Clone(), m.Clone()
						okAll := true
						for _, o := range extra {
							out2 := execTx(run.DB, TxSpec{Mode: "update", Ops: []Op{o}})
							run.NTx++
							c.Log("tx %d (handle kept after the in-doubt commit) update{%s}", run.NTx, o.String())
							if out2.Panic != "" {
								c.Violate("panic:tx:"+out2.Panic, class, "panic in a commit on the handle kept after an in-doubt commit: "+out2.Panic)
								run.Dead = true
								okAll = false
								break
							}
							if out2.Err != nil {
								// the handle may refuse further commits after the fault (tolerated: no effect); stop here
								okAll = false
								break
							}
							mB.Apply(o, out2.Res[0])
							mA.Apply(o, out2.Res[0])
						}
						c.Stat("in_doubt_handles_kept", 1)
						if !run.Dead && run.Reopen() {
							got, _ = obsReal(run.DB, u)
							switch {
							case sameObs(got, obsModel(mB, u)):
								run.M = mB
							case sameObs(got, obsModel(mA, u)):
								run.M = mA
							default:
								if okAll || true {
									c.Violate("in-doubt-partial:after-more-commits+reopen:"+firstDiffCall(got, obsModel(mB, u)), class,
										fmt.Sprintf("after %s, %d more committed Puts of other keys on the same handle and a reopen, the contents are neither 'before' nor 'after' the in-doubt transaction plus those Puts:\n%s", where, len(extra), diffObs(got, obsModel(mB, u))))
								}
							}
						}
						c.Stat("in_doubt_outcomes", 1)
						break
					}
					if !c.Violated() && mergeVariant && r.Intn(4) != 0 && run.Files() >= 2 {
						// the in-doubt transaction is not retried and the same process merges: all or nothing must
						// also hold across the Merge (and the reopen that follows below)
						c.Log("merge (%d files) with an in-doubt transaction in the log", run.Files())
						if _, p := mergeNoPanic(run); p != "" {
							c.Violate("panic:Merge:"+p, class, "Merge panicked: "+p)
							break
						}
						c.Stat("merges_over_in_doubt_transactions", 1)
						got, _ = obsReal(run.DB, u)
						switch {
						case sameObs(got, beforeObs):
							run.M = before
						case sameObs(got, afterObs):
							run.M = m
						default:
							c.Violate("in-doubt-partial:after-merge:"+firstDiffCall(got, beforeObs), class, fmt.Sprintf("after %s and a Merge in the same process the transaction is partially visible:\n%s", where, diffObs(got, beforeObs)))
						}
						stopRetry = true
					}
					if !c.Violated() && run.Reopen() {
						got, _ = obsReal(run.DB, u)
						switch {
						case sameObs(got, beforeObs):
							run.M = before
						case sameObs(got, afterObs):
							run.M = m
						default:
							c.Violate("in-doubt-partial:after-reopen:"+firstDiffCall(got, beforeObs), class, fmt.Sprintf("after %s and a reopen the transaction is partially visible:\n%s", where, diffObs(got, beforeObs)))
						}
					}
					c.Stat("in_doubt_outcomes", 1)
					if stopRetry {
						break
					}
					continue
				}
				// a failed commit: nothing may have changed
				if !run.CheckObs("after-io-fault") {
					c.Note("%s", where)
					break
				}
				if mergeVariant && inj.fired.Op == "write" && j >= 2 && r.Intn(2) == 0 && !(tplTx && cfg.Sync) {
					// stop retrying: the records of this failed commit stay the newest ones for their keys, and the
					// same process goes on (and merges) without a reopen in between
					c.Stat("failed_commits_left_unretried", 1)
					mergeNow = run.Files() >= 2 || r.Intn(2) == 0
					break
				}
				if r.Intn(3) == 0 {
					if !run.Reopen() {
						c.Note("%s", where)
						break
					}
					if !run.CheckObs("after-io-fault+reopen") {
						c.Note("%s", where)
						break
					}
				}
			}
			inj.armed = false
		case x < 87: // read-only transaction calling every exported Tx method, mutators included
			var panics []string
			called := 0
			err := run.DB.View(func(tx *nutsdb.Tx) error {
				_, panics, called = callEveryTxMethod(tx, u, r.Intn)
				return nil
			})
			run.NTx++
			c.Log("tx %d view{every exported Tx method}", run.NTx)
			c.Stat("readonly_method_calls", int64(called))
			if err != nil {
				c.Violate("tx-error:view", class, fmt.Sprintf("View failed: %v", err))
			}
			for _, p := range panics {
				c.Violate("panic:readonly:"+p, class, "method panicked in a read-only transaction: "+p)
			}
			faultKinds["read-only"] = true
			noEffect("after-readonly-all-methods")
		default: // every method on a finished transaction
			for _, how := range []string{"commit", "rollback"} {
				tx, err := run.DB.Begin(true)
				if err != nil {
					c.Violate("tx-error:begin", class, fmt.Sprintf("Begin failed: %v", err))
					break
				}
				if how == "commit" {
					err = tx.Commit()
				} else {
					err = tx.Rollback()
				}
				if err != nil {
					c.Violate("tx-error:"+how, class, fmt.Sprintf("%s of an empty transaction failed: %v", how, err))
				}
				noErr, panics, called := callEveryTxMethod(tx, u, r.Intn)
				c.Stat("finished_tx_method_calls", int64(called))
				sort.Strings(noErr)
				for _, name := range noErr {
					c.Violate("finished-tx-no-error:"+name, class, fmt.Sprintf("%s on a transaction finished by %s returned no error", name, how))
				}
				for _, p := range panics {
					c.Violate("panic:finished-tx:"+p, class, "method panicked on a finished transaction: "+p)
				}
				if e1, e2 := tx.Commit(), tx.Rollback(); e1 == nil || e2 == nil {
					c.Violate("finished-tx-no-error:Commit/Rollback", class, "Commit/Rollback on a finished transaction returned no error")
				}
			}
			run.NTx++
			c.Log("tx %d {every exported Tx method on finished transactions}", run.NTx)
			faultKinds["finished-tx"] = true
			noEffect("after-finished-tx-calls")
		}
	}
	if run.WriteDead && !run.Dead && !c.Violated() {
		run.Reopen()
	}
	if !run.Dead && !c.Violated() {
		// damage that only shows later: a few more commits (shorter and longer records), then a reopen
		for k := 0; k < 4 && !c.Violated(); k++ {
			g.M = run.M
			run.Tx(g.WriteTx(true), false)
		}
		run.CheckObs("final")
		if run.Reopen() {
			run.CheckObs("final+reopen")
		}
	}
	c.Stat("histories", 1)
	c.Nontrivial(len(faultKinds) >= 3)
	if c.Case < 2 {
		var fk []string
		for k := range faultKinds {
			fk = append(fk, k)
		}
		sort.Strings(fk)
		c.Sample(map[string]interface{}{"config": cfg.String(), "fault_kinds": fk, "transactions": run.NTx, "first_steps": firstLines(c.hist, 5)})
	}
}

func init() {
	register(&Check{
		ID: "C12", Level: "fault_enumeration", NoLeakMonitor: true,
		NCases: func(t string) int { return tier(t, 160, 1500) },
		Run:    runC12,
		Rule: "[also: in the Merge variant half of the two-record templates with SyncEnable fail exactly at the sync after the last record (in doubt), then Merge] case = seeded history in which transactions end in: fn error after j operations (every j), explicit Rollback, an oversized entry at the first/middle/last position, an injected I/O error (write with and without a partial write left behind, open, truncate, close) at the j-th file operation of the Commit for j = 1,2,... until the Commit gets through, an injected sync error (outcome in doubt: all-or-nothing), " +
			"read-only transactions calling every exported Tx method (reflection-enumerated, mutators included), and every method called on committed / rolled-back transactions; after each fault the full observation must equal the model state before it, in the process and (1 in 3) after reopen; the history continues with more commits and a final reopen; " +
			"non-trivial = >=3 fault kinds in the history; distinct by history hash",
		Assumptions: []string{"faults are injected through the verif FS hook before the real operation (the operation is skipped; a partial write is written by the injector)", "an injected sync error leaves the outcome in doubt, as the property states"},
		Floor: func(t string, a map[string]int64) string {
			if a["faulty_transactions"] < 200 || a["injected_write"] == 0 || a["readonly_method_calls"] == 0 || a["finished_tx_method_calls"] == 0 {
				return fmt.Sprintf("faulty tx %d, injected writes %d", a["faulty_transactions"], a["injected_write"])
			}
			return ""
		},
	})
}
