package main

import (
	"errors"
	"os"
	"path/filepath"
	"strings"
	"sync"

	"github.com/xujiajun/nutsdb"
)

// FSEvent is one file mutation the library is about to perform inside the monitored directory.
type FSEvent struct {
	Seq   int
	Op    string // open truncate write sync close remove
	Path  string // relative to the monitored root
	Off   int64
	Data  []byte
	Tx    int    // index of the transaction in flight (0 = none: Open/Close/Merge/...)
	Phase string // label set by the workload ("tx", "merge", "open", "close", ...)
}

// Snapshot is the content of the monitored directory at one instant.
type Snapshot struct {
	Dirs  []string
	Files map[string]string
}

func (s *Snapshot) clone() *Snapshot {
	n := &Snapshot{Dirs: append([]string{}, s.Dirs...), Files: make(map[string]string, len(s.Files))}
	for k, v := range s.Files {
		n.Files[k] = v
	}
	return n
}

// FSMon consumes the verif FS hook for one directory.
type FSMon struct {
	mu     sync.Mutex
	Root   string
	Seq    int
	Tx     int
	Phase  string
	Events []FSEvent // kept when Record is set
	Record bool

	// OnEvent is called synchronously before the operation happens (not holding mu).
	// Returning handled=true makes the library see (n, err) instead of performing the operation.
	OnEvent func(ev *FSEvent) (handled bool, n int, err error)
	Counts  map[string]int
	intern  map[string]string
}

func NewFSMon(root string) *FSMon {
	return &FSMon{Root: filepath.Clean(root), Counts: map[string]int{}, intern: map[string]string{}}
}

func (m *FSMon) hook(op, path string, off int64, b []byte) (bool, int, error) {
	p := filepath.Clean(path)
	if p != m.Root && !strings.HasPrefix(p, m.Root+string(os.PathSeparator)) {
		return false, 0, nil
	}
	rel, _ := filepath.Rel(m.Root, p)
	m.mu.Lock()
	m.Seq++
	ev := FSEvent{Seq: m.Seq, Op: op, Path: rel, Off: off, Tx: m.Tx, Phase: m.Phase}
	if b != nil {
		ev.Data = append([]byte{}, b...)
	}
	m.Counts[op]++
	if m.Record {
		m.Events = append(m.Events, ev)
	}
	cb := m.OnEvent
	m.mu.Unlock()
	if cb != nil {
		return cb(&ev)
	}
	return false, 0, nil
}

func (m *FSMon) Install() { nutsdb.VerifSetFSHook(m.hook) }

func (m *FSMon) Uninstall() { nutsdb.VerifSetFSHook(nil) }

func (m *FSMon) SetTx(tx int, phase string) {
	m.mu.Lock()
	m.Tx, m.Phase = tx, phase
	m.mu.Unlock()
}

// Snap reads the monitored directory (contents interned so that identical files share memory).
func (m *FSMon) Snap() *Snapshot {
	files := readTree(m.Root)
	s := &Snapshot{Dirs: listDirs(m.Root), Files: make(map[string]string, len(files))}
	for k, v := range files {
		sv := string(v)
		if iv, ok := m.intern[sv]; ok {
			sv = iv
		} else {
			m.intern[sv] = sv
		}
		s.Files[k] = sv
	}
	return s
}

func (s *Snapshot) Materialize(dir string) error {
	files := make(map[string][]byte, len(s.Files))
	for k, v := range s.Files {
		files[k] = []byte(v)
	}
	return writeTree(dir, s.Dirs, files)
}

// applyWrite returns content with data[:n] written at off (extending with zeros if needed).
func applyWrite(content string, off int64, data []byte, n int) string {
	b := []byte(content)
	end := int(off) + n
	if end > len(b) {
		nb := make([]byte, end)
		copy(nb, b)
		b = nb
	}
	copy(b[off:], data[:n])
	return string(b)
}

var errInjected = errors.New("verif: injected I/O error")

// partialWriteToFile writes data[:n] at off into the file (used by the injector to leave a partial write behind).
func partialWriteToFile(path string, off int64, data []byte, n int) {
	if n <= 0 {
		return
	}
	f, err := os.OpenFile(path, os.O_RDWR, 0644)
	if err != nil {
		return
	}
	f.WriteAt(data[:n], off)
	f.Close()
}

// tornLengths returns the prefix lengths at which a write of n bytes is torn:
// every field boundary of a data record header, ends of bucket/key, mid-value, n-1.
func tornLengths(data []byte, isRecord bool) []int {
	n := len(data)
	set := map[int]bool{}
	add := func(x int) {
		if x > 0 && x < n {
			set[x] = true
		}
	}
	if isRecord && n >= 42 {
		for _, b := range []int{4, 12, 16, 20, 22, 26, 30, 32, 34, 42} {
			add(b)
		}
		ks := int(uint32(data[12]) | uint32(data[13])<<8 | uint32(data[14])<<16 | uint32(data[15])<<24)
		bs := int(uint32(data[26]) | uint32(data[27])<<8 | uint32(data[28])<<16 | uint32(data[29])<<24)
		add(42 + bs)
		add(42 + bs + ks)
		add(42 + bs + ks + (n-42-bs-ks)/2)
	} else {
		add(n / 4)
		add(n / 2)
		add(8)
	}
	add(1)
	add(n - 1)
	var out []int
	for x := range set {
		out = append(out, x)
	}
	// deterministic order
	for i := 0; i < len(out); i++ {
		for j := i + 1; j < len(out); j++ {
			if out[j] < out[i] {
				out[i], out[j] = out[j], out[i]
			}
		}
	}
	return out
}
