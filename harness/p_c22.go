package main

import (
	"crypto/sha256"
	"fmt"
	"os"
	"sort"
)

func dirDigest(dir string) string {
	files := readTree(dir)
	var names []string
	for n := range files {
		names = append(names, n)
	}
	sort.Strings(names)
	h := sha256.New()
	for _, d := range listDirs(dir) {
		fmt.Fprintf(h, "dir %s\n", d)
	}
	for _, n := range names {
		fmt.Fprintf(h, "file %s %d %x\n", n, len(files[n]), sha256.Sum256(files[n]))
	}
	return fmt.Sprintf("%x", h.Sum(nil))
}

func obsHasData(obs []string) bool {
	for _, l := range obs {
		if len(l) > 0 && !(hasSuffix(l, "= []") || hasSuffix(l, "= ERR") || hasSuffix(l, "= 0")) {
			return true
		}
	}
	return false
}

func hasSuffix(s, suf string) bool { return len(s) >= len(suf) && s[len(s)-len(suf):] == suf }

func family(mode int) int {
	if mode == 2 {
		return 1
	}
	return 0
}

func runC22(c *CaseCtx) {
	r := c.Rng
	cm := c.Case % 3
	state := []string{"never-opened", "opened-and-closed", "written", "written-many-segments", "merged", "crashed"}[(c.Case/3)%6]
	cfg := Cfg{Mode: cm, RW: r.Intn(2), StartRW: r.Intn(2), Seg: int64(150 + r.Intn(400)), Sync: r.Intn(2) == 0}
	if state == "merged" && cm == 2 {
		state = "written-many-segments"
	}
	u := defaultUniverse(r, 1, 6+r.Intn(6), false)
	run := NewRunner(c, cfg, u, "mode-matrix")
	c.Log("creator %s state=%s", cfg, state)
	type variant struct {
		snap    *Snapshot
		want    []string // creator's observation (nil: not known exactly)
		hasData bool
		label   string
	}
	var variants []variant
	var cr *CrashRec
	if state == "crashed" {
		cr = NewCrashRec(c, run.Dir)
		cr.Torn = true // torn last records too: the two RAM index modes must read a crashed directory alike
		cr.Mon.Install()
		cr.PushState(obsModel(run.M, u))
		cr.SetStep(0, false, "open")
	}
	if state != "never-opened" {
		if !run.Open() {
			if cr != nil {
				cr.Mon.Uninstall()
			}
			return
		}
		g := &Gen{R: r, U: u, Cfg: cfg, KV: true, TTL: true, MaxOps: 4}
		ntx := 0
		switch state {
		case "written":
			ntx = 1 + r.Intn(4)
		case "written-many-segments", "merged":
			ntx = 15 + r.Intn(20)
		case "crashed":
			ntx = 4 + r.Intn(8)
		}
		for i := 0; i < ntx && !run.Dead; i++ {
			g.M = run.M
			if cr != nil {
				cr.SetStep(len(cr.States)-1, true, "tx")
			}
			run.Tx(g.WriteTx(true), false)
			if cr != nil {
				cr.PushState(obsModel(run.M, u))
				cr.SetStep(len(cr.States)-1, false, "idle")
			}
		}
		if state == "merged" && !run.Dead {
			func() {
				defer func() {
					if p := recover(); p != nil {
						c.Note("Merge panicked: %v", p)
					}
				}()
				run.DB.Merge()
			}()
		}
		if run.Dead || c.Violated() {
			if cr != nil {
				cr.Mon.Uninstall()
			}
			return
		}
		want, err := obsReal(run.DB, u)
		if err != nil {
			c.Inconclusive("creator observation failed")
			return
		}
		run.Close()
		if cr != nil {
			cr.Mon.Uninstall()
			// a handful of crash images of the creator's run
			for k := 0; k < 10 && len(cr.Images) > 0; k++ {
				img := cr.Images[r.Intn(len(cr.Images))]
				variants = append(variants, variant{snap: img.Snap, want: nil, hasData: obsHasData(cr.States[img.Cur]),
					label: fmt.Sprintf("crash image before event #%d %s %s", img.Ev.Seq, img.Ev.Op, img.Ev.Path)})
			}
		}
		mon := NewFSMon(run.Dir)
		variants = append(variants, variant{snap: mon.Snap(), want: want, hasData: obsHasData(want), label: "cleanly closed"})
	} else {
		variants = append(variants, variant{snap: &Snapshot{Files: map[string]string{}}, want: obsModel(NewModel(), u), label: "never opened"})
	}
	for vi, v := range variants {
		obsByMode := map[int][]string{}
		for rm := 0; rm < 3; rm++ {
			// directory names with characters that mean something to pattern matching (but nothing to the file system)
			dir := c.Dir(fmt.Sprintf("v%d-m%d%s", vi, rm, []string{"", "", "[3]", "?q", "*", "a[b", "{x}"}[r.Intn(7)]))
			os.RemoveAll(dir)
			if state == "never-opened" && r.Intn(2) == 0 {
				// directory does not exist at all
			} else if err := v.snap.Materialize(dir); err != nil {
				c.Inconclusive("materialize: " + err.Error())
				continue
			}
			before := dirDigest(dir)
			ocfg := cfg
			ocfg.Mode = rm
			db, err := openNoPanic(ocfg.Options(dir))
			c.Stat("opens", 1)
			c.Stat(fmt.Sprintf("pair_%d_to_%d", cm, rm), 1)
			where := fmt.Sprintf("directory created in mode %d (%s, %s), reopened in mode %d", cm, state, v.label, rm)
			cross := family(cm) != family(rm)
			if err != nil {
				c.Stat("refusals", 1)
				if after := dirDigest(dir); after != before {
					c.Violate("refused-but-changed", "mode-matrix", fmt.Sprintf("Open refused (%v) but changed the directory: %s", err, where))
				}
				if !cross && state != "crashed" {
					c.Violate("same-family-open-failed:"+errClass(err.Error()), "mode-matrix", fmt.Sprintf("Open failed: %v; %s", err, where))
				}
				os.RemoveAll(dir)
				continue
			}
			if cross && v.hasData {
				c.Violate("incompatible-mode-accepted", "mode-matrix", fmt.Sprintf("Open succeeded on data of the other index-mode family: %s", where))
			}
			if !cross && v.want == nil && rm != 2 {
				if got, oerr := obsReal(db, u); oerr == nil {
					obsByMode[rm] = got
				}
			}
			if !cross && v.want != nil {
				got, oerr := obsReal(db, u)
				if oerr != nil || !sameObs(got, v.want) {
					c.Violate("contents-differ:"+firstDiffCall(got, v.want), "mode-matrix", fmt.Sprintf("contents differ after switching index mode: %s\n%s", where, diffObs(got, v.want)))
				}
				c.Stat("content_comparisons", 1)
			}
			db.Close()
			os.RemoveAll(dir)
		}
		if a, b := obsByMode[0], obsByMode[1]; a != nil && b != nil {
			c.Stat("ram_mode_pairs_compared_on_crash_images", 1)
			if !sameObs(a, b) {
				c.Violate("ram-modes-differ:"+firstDiffCall(b, a), "mode-matrix", fmt.Sprintf("the two RAM index modes show different contents on the same directory (created in mode %d, %s; got = HintKeyAndRAMIdxMode, want = HintKeyValAndRAMIdxMode):\n%s", cm, v.label, diffObs(b, a)))
			}
		}
	}
	c.Stat("directories", int64(len(variants)))
	c.Stat("state_"+state, 1)
	c.Nontrivial(true)
	c.Log("variants %d", len(variants))
	if c.Case < 3 {
		c.Sample(map[string]interface{}{"creator": cfg.String(), "state": state, "variants": len(variants)})
	}
}

func init() {
	register(&Check{
		ID: "C22", Level: "exploration", NoLeakMonitor: true,
		NCases: func(t string) int { return tier(t, 90, 4000) },
		Run:    runC22,
		Rule: "case = (creator index mode, directory state in {never opened, opened and closed, written, written over many segments, merged, crashed (process-crash images of the creator's run)}); each resulting directory is copied and opened in each of the three index modes; " +
			"oracle: other mode family and committed data present => Open must return an error; whenever Open returns an error the directory (recursive listing + SHA-256 of every file) must be byte-identical to before; same family => Open succeeds and the full observation equals the creator's last one (KV data); distinct by creator configuration+history hash",
		Assumptions: []string{"KV data only (structures are documented as KeyVal-mode only)"},
		Floor: func(t string, a map[string]int64) string {
			for cm := 0; cm < 3; cm++ {
				for rm := 0; rm < 3; rm++ {
					if a[fmt.Sprintf("pair_%d_to_%d", cm, rm)] == 0 {
						return fmt.Sprintf("mode pair %d->%d never exercised", cm, rm)
					}
				}
			}
			if a["refusals"] == 0 || a["content_comparisons"] == 0 {
				return "no refusal or no content comparison observed"
			}
			return ""
		},
	})
}
