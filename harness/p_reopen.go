package main

import (
	"fmt"
	"syscall"

	"github.com/xujiajun/nutsdb"
)

// runAnything executes an unconstrained history (multi-operation transactions that read and pop what they
// wrote, operations that become no-ops at commit, failing transactions, reads of missing buckets) and
// compares a full observation before Close with one after Open. No model is involved.
// checkState=false judges only Open's success (C09).
func runAnything(c *CaseCtx, checkState bool, class string, merge bool) {
	r := c.Rng
	cfg := randCfg(r, []int{0, 0, 1, 2}, 120, 800)
	ds := cfg.Mode == 0
	nb := 2
	if cfg.Mode == 2 {
		nb = 1
		class += "-sparse"
	}
	u := defaultUniverse(r, nb, 5+r.Intn(12), ds)
	dir := c.Dir("db")
	c.Log("cfg %s buckets=%v", cfg, u.Buckets)
	db, err := openNoPanic(cfg.Options(dir))
	if err != nil {
		c.Violate("open-failed:"+errClass(err.Error()), class, fmt.Sprintf("first Open(%s) failed: %v", cfg, err))
		return
	}
	m := NewModel() // only used to steer the generator (approximate state), never as an oracle
	g := &Gen{R: r, U: u, Cfg: cfg, KV: true, List: ds, Set: ds, ZSet: ds, TTL: true, MaxOps: 6, M: m}
	if checkState && !merge && cfg.Mode != 2 && c.Case%4 == 1 {
		// C08 with Merge: only in histories without lists and positional sorted-set removals (whose state Merge itself
		// changes: recorded findings of C15/C16); everything else must read the same after Merge, Close and Open
		merge = true
		g.List, g.NoZPop = false, true
		if c.Case%8 == 5 {
			// ... or the other way round: the handle merges once before anything of the history exists (no list record is
			// in the log then), and the history - lists included - runs on that handle without further Merge calls
			merge = false
			g.List, g.NoZPop = ds, false
			if preMergeHandle(c, db, cfg) {
				class += "-after-merge"
			}
		}
	}
	resize := checkState && !merge && c.Case%8 == 3
	if resize {
		class += "-resized"
	}
	nReopen := 2 + r.Intn(3)
	ntx := 20 + r.Intn(tier(c.Tier, 40, 100))
	closed := false
	reopenAt := map[int]bool{}
	for i := 0; i < nReopen; i++ {
		reopenAt[r.Intn(ntx)] = true
	}
	reopenAt[ntx-1] = true
	kinds := map[string]bool{}
	reopen := func(i int) bool {
		before, oerr := obsReal(db, u)
		if oerr != nil {
			c.Violate("obs-view-error", class, fmt.Sprintf("observation before Close failed: %v", oerr))
			return false
		}
		c.Log("close+open at %d", i)
		if err := db.Close(); err != nil {
			c.Violate("close-failed", class, fmt.Sprintf("Close failed: %v", err))
			return false
		}
		closed = true
		c.Stat("reopens", 1)
		if resize {
			// the application changes SegmentSize between runs (a configuration change): every record written under the
			// old size - also in a last segment that is now longer than a whole segment may be - must still be there
			cfg.Seg = 120 + r.Int63n(681)
			g.Cfg = cfg
			c.Log("SegmentSize is now %d", cfg.Seg)
			c.Stat("reopens_with_another_segment_size", 1)
		}
		db, err = openNoPanic(cfg.Options(dir))
		if err != nil {
			c.Violate("open-failed:"+errClass(err.Error()), class, fmt.Sprintf("Open(%s) failed after a clean Close following %d transactions: %v", cfg, i+1, err))
			return false
		}
		closed = false
		if !checkState {
			return true
		}
		after, oerr := obsReal(db, u)
		if oerr != nil {
			c.Violate("obs-view-error", class, fmt.Sprintf("observation after Open failed: %v", oerr))
			return false
		}
		c.Stat("observed_reads", int64(len(after)))
		if !sameObs(after, before) {
			c.Violate("reopen-diff:"+firstDiffCall(after, before), class,
				fmt.Sprintf("observation after Close/Open (%s, %d transactions) differs from the one just before Close (got = after, want = before):\n%s", cfg, i+1, diffObs(after, before)))
			return false
		}
		return true
	}
	for i := 0; i < ntx; i++ {
		var t TxSpec
		x := r.Intn(100)
		switch {
		case x < 60:
			t = g.WriteTx(false)
		case x < 70:
			t = g.WriteTx(false)
			// reads interleaved into the write transaction
			rt := g.ReadTx(2)
			t.Ops = append(t.Ops, rt.Ops...)
			r.Shuffle(len(t.Ops), func(a, b int) { t.Ops[a], t.Ops[b] = t.Ops[b], t.Ops[a] })
		case x < 78:
			t = g.WriteTx(false)
			t.Mode = []string{"fnerr", "rollback"}[r.Intn(2)]
		case x < 84:
			t = g.WriteTx(false)
			t.Ops = append(t.Ops, Op{K: "Put", B: g.bucket(), Key: g.pick(u.KVKeys), Val: make([]byte, int(cfg.Seg))})
		case x < 92:
			t = g.ReadTx(4)
			t.Ops = append(t.Ops, Op{K: "GetAll", B: "never"}, Op{K: "Get", B: "never", Key: []byte("k")}, Op{K: "PrefixScan", B: "never", Key: []byte("k"), J: -1},
				Op{K: "RangeScan", B: "never", Key: []byte("a"), Key2: []byte("z")})
			if ds {
				t.Ops = append(t.Ops, Op{K: "LRange", B: "never", Key: []byte("l"), I: 0, J: -1}, Op{K: "SMembers", B: "never", Key: []byte("s")}, Op{K: "ZCard", B: "never"})
			}
		default:
			t = g.WriteTx(false)
			t.Mode = "manual"
		}
		c.Log("tx %d %s", i+1, t.String())
		out := execTx(db, t)
		c.Stat("transactions", 1)
		for j, o := range t.Ops {
			kinds[o.K] = true
			if j < len(out.Res) {
				if out.Res[j].Panic != "" {
					c.Violate("panic:"+o.K+":"+out.Res[j].Panic, class, fmt.Sprintf("%s panicked: %s", o.String(), out.Res[j].Panic))
				}
				if out.Committed {
					m.Apply(o, out.Res[j]) // steering only
				}
			}
		}
		if out.Panic != "" {
			c.Violate("panic:tx:"+out.Panic, class, fmt.Sprintf("panic in %s: %s\n%s", t.String(), out.Panic, firstN(out.Stack, 1200)))
			return // the lock may still be held
		}
		if merge && cfg.Mode != 2 && r.Intn(12) == 0 {
			c.Log("merge")
			func() {
				defer func() {
					if p := recover(); p != nil {
						if checkState {
							c.Violate("panic:Merge:"+panicClass(p), class, fmt.Sprintf("Merge panicked: %v", p))
							return
						}
						// C09 judges only Open: abandon this handle (a lock may be held) and open the directory as it is
						c.Stat("merge_panics_survived", 1)
						db2, err := openNoPanic(cfg.Options(dir))
						if err != nil {
							c.Violate("open-failed:"+errClass(err.Error()), class, fmt.Sprintf("Open(%s) failed on the directory left by a Merge that panicked: %v", cfg, err))
							return
						}
						db = db2
					}
				}()
				db.Merge()
			}()
			c.Stat("merges", 1)
		}
		if c.Violated() {
			break
		}
		if reopenAt[i] {
			if !reopen(i) {
				break
			}
		}
	}
	if !closed && db != nil && !c.Violated() {
		db.Close()
	}
	c.Stat("histories", 1)
	c.Nontrivial(len(kinds) >= 6 && countDataFiles(dir) >= 2)
	if c.Case < 2 {
		c.Sample(map[string]interface{}{"config": cfg.String(), "transactions": ntx, "first_steps": firstLines(c.hist, 5)})
	}
}

// exactFill writes records whose sizes add up to exactly one segment (last record with an empty or a
// non-empty value), closes, reopens, continues; for every index mode x RWMode x StartFileLoadingMode.
func exactFill(c *CaseCtx, class string) {
	r := c.Rng
	n := 0
	for mode := 0; mode < 3; mode++ {
		for rw := 0; rw < 2; rw++ {
			for srw := 0; srw < 2; srw++ {
				for lastEmpty := 0; lastEmpty < 2; lastEmpty++ {
					seg := int64(200 + r.Intn(200))
					cfg := Cfg{Mode: mode, RW: rw, StartRW: srw, Seg: seg, Sync: r.Intn(2) == 0}
					cls := class
					if mode == 2 {
						cls += "-sparse"
					}
					dir := c.Dir(fmt.Sprintf("fill-%d", n))
					n++
					db, err := openNoPanic(cfg.Options(dir))
					if err != nil {
						c.Violate("open-failed:"+errClass(err.Error()), cls, fmt.Sprintf("first Open(%s) failed: %v", cfg, err))
						continue
					}
					// record size = 42 + len(bucket) + len(key) + len(value); bucket "b", keys "k<i>"
					used := int64(0)
					i := 0
					ok := true
					put := func(vlen int, del bool) {
						key := []byte(fmt.Sprintf("k%d", i%10))
						err := db.Update(func(tx *nutsdb.Tx) error {
							if del {
								return tx.Delete("b", key)
							}
							return tx.Put("b", key, make([]byte, vlen), 0)
						})
						if err != nil {
							c.Violate("commit-error:"+errClass(err.Error()), cls, fmt.Sprintf("exact-fill Put failed (%s): %v", cfg, err))
							ok = false
						}
						used += int64(42 + 1 + 2 + vlen)
						i++
					}
					base := int64(45)
					for ok && seg-used >= 2*base+64 {
						put(r.Intn(20), false)
					}
					if ok {
						// remaining = seg-used; split into one filler and the last record
						rem := seg - used
						if lastEmpty == 1 {
							put(int(rem-base-base), false)
							put(0, true) // a Delete: empty value, ends exactly at the last byte
						} else {
							put(int(rem-base), false)
						}
					}
					c.Log("exact fill %s lastEmpty=%d used=%d files=%d", cfg, lastEmpty, used, countDataFiles(dir))
					if ok && used != seg {
						c.Inconclusive("exact-fill arithmetic off")
					}
					if ok && countDataFiles(dir) != 1 {
						c.Inconclusive(fmt.Sprintf("expected exactly one full segment, have %d", countDataFiles(dir)))
					}
					u := &Universe{Buckets: []string{"b"}}
					for k := 0; k < 10; k++ {
						u.KVKeys = append(u.KVKeys, []byte(fmt.Sprintf("k%d", k)))
					}
					before, _ := obsReal(db, u)
					db.Close()
					c.Stat("exact_fill_directories", 1)
					db, err = openNoPanic(cfg.Options(dir))
					if err != nil {
						c.Violate("open-failed:"+errClass(err.Error()), cls, fmt.Sprintf("Open(%s) failed on a directory whose only segment is exactly full (last record empty value=%v): %v", cfg, lastEmpty == 1, err))
						continue
					}
					after, _ := obsReal(db, u)
					if !sameObs(after, before) {
						c.Violate("reopen-diff:"+firstDiffCall(after, before), cls, fmt.Sprintf("exactly-full segment (%s): reads differ after reopen:\n%s", cfg, diffObs(after, before)))
					}
					// more writes (small ones: no larger than the record that filled the segment), each followed by a
					// reopen; every one of them must still be there at the end (a segment that is treated as having room
					// left after the reopen takes records beyond its capacity, which a later recovery overwrites)
					want := map[string]string{}
					bad := false
					for w := 0; w < 4 && !bad; w++ {
						k, v := fmt.Sprintf("k%d", 3+w), fmt.Sprintf("w%d", w)
						if err := db.Update(func(tx *nutsdb.Tx) error { return tx.Put("b", []byte(k), []byte(v), 0) }); err != nil {
							c.Violate("commit-error:"+errClass(err.Error()), cls, fmt.Sprintf("write %d after exact fill failed (%s): %v", w, cfg, err))
							bad = true
							break
						}
						want[k] = v
						db.Close()
						db, err = openNoPanic(cfg.Options(dir))
						if err != nil {
							c.Violate("open-failed:"+errClass(err.Error()), cls, fmt.Sprintf("Open(%s) failed after write %d following an exactly-full segment: %v", cfg, w, err))
							bad = true
							break
						}
						db.View(func(tx *nutsdb.Tx) error {
							for kk, vv := range want {
								e, gerr := tx.Get("b", []byte(kk))
								if gerr != nil || e == nil || string(e.Value) != vv {
									c.Violate("reopen-diff:after-exact-fill:Get", cls, fmt.Sprintf("exactly-full segment (%s, last record empty value=%v): %q=%q was committed after the fill and is gone or changed after reopen %d (err=%v)", cfg, lastEmpty == 1, kk, vv, w, gerr))
									bad = true
								}
							}
							return nil
						})
					}
					if db != nil && !bad {
						db.Close()
					} else if db != nil {
						func() { defer func() { recover() }(); db.Close() }()
					}
				}
			}
		}
	}
	c.Nontrivial(true)
}

// manySegments: a directory with a few hundred data segments (one or two records each) is reopened while the
// process may only hold 96 descriptors: Open has to release each segment as it goes.
func manySegments(c *CaseCtx, class string) {
	r := c.Rng
	for _, mode := range []int{0, 1} {
		cfg := Cfg{Mode: mode, RW: r.Intn(2), StartRW: 0, Seg: int64(100 + r.Intn(40)), Sync: false}
		if r.Intn(3) == 0 {
			cfg.StartRW = 1
		}
		dir := c.Dir(fmt.Sprintf("many-%d", mode))
		db, err := openNoPanic(cfg.Options(dir))
		if err != nil {
			c.Violate("open-failed:"+errClass(err.Error()), class, fmt.Sprintf("first Open(%s) failed: %v", cfg, err))
			continue
		}
		n := 260 + r.Intn(80)
		for i := 0; i < n; i++ {
			k := []byte(fmt.Sprintf("k%03d", i%50))
			if err := db.Update(func(tx *nutsdb.Tx) error {
				return tx.Put("b", k, []byte(fmt.Sprintf("value-%d-padding-padding", i)), 0)
			}); err != nil {
				c.Violate("commit-error:"+errClass(err.Error()), class, fmt.Sprintf("Put %d failed (%s): %v", i, cfg, err))
				break
			}
		}
		db.Close()
		files := countDataFiles(dir)
		var old syscall.Rlimit
		lowered := false
		if err := syscall.Getrlimit(syscall.RLIMIT_NOFILE, &old); err == nil {
			low := old
			low.Cur = 96
			if low.Cur <= old.Max && syscall.Setrlimit(syscall.RLIMIT_NOFILE, &low) == nil {
				lowered = true
			}
		}
		db, err = openNoPanic(cfg.Options(dir))
		if lowered {
			syscall.Setrlimit(syscall.RLIMIT_NOFILE, &old)
		}
		c.Stat("many_segment_directories", 1)
		c.StatMax("max_segments_reopened", int64(files))
		c.Log("many segments %s files=%d descriptor limit lowered=%v", cfg, files, lowered)
		if err != nil {
			c.Violate("open-failed:"+errClass(err.Error()), class, fmt.Sprintf("Open(%s) failed on a cleanly closed directory with %d data segments (descriptor limit 96): %v", cfg, files, err))
			continue
		}
		db.View(func(tx *nutsdb.Tx) error {
			if e, gerr := tx.Get("b", []byte("k007")); gerr != nil || e == nil {
				c.Violate("reopen-diff:many-segments:Get", class, fmt.Sprintf("k007 not readable after reopening %d segments (%s): %v", files, cfg, gerr))
			}
			return nil
		})
		db.Close()
	}
	c.Nontrivial(true)
}

func init() {
	register(&Check{
		ID: "C09", Level: "fault_enumeration",
		NCases: func(t string) int { return tier(t, 64, 400) },
		Run: func(c *CaseCtx) {
			if slot(c, 16) == 7 {
				manySegments(c, "many-segments")
				return
			}
			if slot(c, 16) == 11 {
				kind := []string{"kv", "set", "zset", "list"}[c.Rng.Intn(4)]
				modes := []int{0}
				if kind == "kv" {
					modes = []int{0, 1, 2}
				}
				largeHistory(c, "clean-close", largeOpts{Kind: kind, Modes: modes, Merge: (c.Case/16)%2 == 0})
				return
			}
			switch c.Case % 4 {
			case 0:
				exactFill(c, "exact-fill")
			case 1, 2:
				runCrashWorkload(c, crashOpts{Modes: []int{0, 1, 2}, NTx: 10 + c.Rng.Intn(20), Failed: true, Burst: c.Case%8 == 1, Reopen: true,
					Mode: "open", Class: "crash", SparseRead: true})
			default:
				runAnything(c, false, "clean-close", true)
			}
		},
		Rule: "[also: 1 case in 16 is a large-geometry history (segments of 9-330 KB: >1000 live records in one segment, or values of 1-69 KB around the 4 KiB and 64 KiB marks and with whole pages of zero bytes; Merge and reopen twice, compared with the model); crash images taken between the write of a root-index record by the transaction in flight and the first record of the next segment are continued (one per interrupted rotation)] directories produced only by the library, then opened with the real Open (oracle: no error, no panic): (a) 24 exactly-full-segment directories per case (3 index modes x RWMode x StartFileLoadingMode x last record with empty/non-empty value, sizes computed to the byte), reopened, rotated, reopened; " +
			"(b) every process-crash and torn-write image of monitored workloads with failing transactions, bursts and reads of never-written buckets (same image construction as C10); (c) clean-close points of unconstrained histories with Merge calls, failed transactions, no-op operations and missing-bucket reads; " +
			"non-trivial = >=20 images and a rotation / >=6 operation kinds; distinct by workload hash",
		Assumptions: []string{"as C10 for the crash images"},
		Floor: func(t string, a map[string]int64) string {
			if a["exact_fill_directories"] < 24 || a["images_opened"] < 300 || a["reopens"] < 10 {
				return fmt.Sprintf("exact-fill %d, images %d, reopens %d", a["exact_fill_directories"], a["images_opened"], a["reopens"])
			}
			return ""
		},
	})
	register(&Check{
		ID: "C08", Level: "exploration",
		NCases: func(t string) int { return tier(t, 400, 2500) },
		Run: func(c *CaseCtx) {
			if slot(c, 16) == 11 {
				kind := []string{"kv", "set", "zset", "list"}[c.Rng.Intn(4)]
				modes := []int{0}
				if kind == "kv" {
					modes = []int{0, 1, 2}
				}
				largeHistory(c, "anything", largeOpts{Kind: kind, Modes: modes, Merge: (c.Case/16)%2 == 0})
				c.Stat("reopens", 2)
				return
			}
			runAnything(c, true, "anything", false)
		},
		Rule: "[also: 1 case in 16 is a large-geometry history (segments of 9-330 KB: >1000 live records in one segment, or values of 1-69 KB around the 4 KiB and 64 KiB marks and with whole pages of zero bytes; Merge and reopen twice, compared with the model); 1 in 8 histories changes SegmentSize at every reopen; 1 in 8 runs - lists included - on a handle that merged before the history] case = unconstrained seeded history (multi-operation transactions that read/pop what they wrote, operations that are no-ops at commit, failing/rolled-back/oversized transactions, reads of missing buckets; all structures in KeyVal, KV in KeyOnly and sparse) with 2-4 Close/Open points; " +
			"oracle: full observation of every bucket/structure just before Close == the one just after Open with the same options (self-comparison, no model); non-trivial = >=6 distinct operation kinds and a rotation; distinct by configuration+history hash",
		Assumptions: []string{"the universe of buckets/keys read by the observation covers everything the history can write"},
		Floor: func(t string, a map[string]int64) string {
			if a["reopens"] < 100 {
				return "too few reopen points"
			}
			return ""
		},
	})
}
