package main

import (
	"bufio"
	"bytes"
	"encoding/json"
	"fmt"
	"hash/fnv"
	"io/ioutil"
	"math/rand"
	"os"
	"os/exec"
	"path/filepath"
	"runtime"
	"sort"
	"strconv"
	"strings"
	"sync"
	"sync/atomic"
	"syscall"
	"time"
)

// ---------------------------------------------------------------- case plumbing

type Violation struct {
	Sig    string `json:"sig"`    // stable signature, matched against KNOWN_FINDINGS.txt
	Class  string `json:"class"`  // scenario class
	Detail string `json:"detail"` // human readable witness
	KF     string `json:"kf,omitempty"`
}

type CaseResult struct {
	Case       int              `json:"case"`
	Verdict    string           `json:"verdict"` // held | violated | inconclusive
	FP         string           `json:"fp"`
	Nontrivial bool             `json:"nontrivial"`
	Stats      map[string]int64 `json:"stats,omitempty"`
	Viol       []Violation      `json:"viol,omitempty"`
	Sample     interface{}      `json:"sample,omitempty"`
	Note       string           `json:"note,omitempty"`
	History    []string         `json:"history,omitempty"` // only kept for violations
}

// CaseCtx is handed to a check for each case.
type CaseCtx struct {
	Prop    string
	Tier    string
	Seed    int64
	Case    int
	NCases  int
	Rng     *rand.Rand
	Scratch string // private empty directory, removed afterwards
	res     *CaseResult
	hist    []string
	fp      hashWriter
	known   map[string]*knownFinding
}

type hashWriter struct{ h uint64 }

func (w *hashWriter) add(s string) {
	h := fnv.New64a()
	var b [8]byte
	for i := 0; i < 8; i++ {
		b[i] = byte(w.h >> (8 * uint(i)))
	}
	h.Write(b[:])
	h.Write([]byte(s))
	w.h = h.Sum64()
}

func (c *CaseCtx) Stat(name string, n int64) {
	if c.res.Stats == nil {
		c.res.Stats = map[string]int64{}
	}
	c.res.Stats[name] += n
}

// StatMax keeps a maximum instead of a sum (name must start with "max_").
func (c *CaseCtx) StatMax(name string, n int64) {
	if c.res.Stats == nil {
		c.res.Stats = map[string]int64{}
	}
	if n > c.res.Stats[name] {
		c.res.Stats[name] = n
	}
}

// Log appends a line to the case's history (kept only when the case ends in a violation)
// and folds it into the case fingerprint.
func (c *CaseCtx) Log(format string, a ...interface{}) {
	s := fmt.Sprintf(format, a...)
	c.hist = append(c.hist, s)
	c.fp.add(s)
	if traceOn {
		fmt.Fprintln(os.Stderr, "TRACE", firstN(s, 400))
	}
}

var traceOn = os.Getenv("VERIF_TRACE") != ""

// Note adds to the history without influencing the fingerprint.
func (c *CaseCtx) Note(format string, a ...interface{}) {
	c.hist = append(c.hist, "# "+fmt.Sprintf(format, a...))
}

func (c *CaseCtx) Violate(sig, class, detail string) {
	c.res.Verdict = "violated"
	full := c.Prop + "/" + class + "/" + sig
	// at most 4 witnesses per signature and 24 distinct signatures per case: many witnesses of one (possibly known)
	// signature must never crowd out a different one
	same, distinct := 0, map[string]bool{}
	for _, v := range c.res.Viol {
		distinct[v.Sig] = true
		if v.Sig == full {
			same++
		}
	}
	if same < 4 && (distinct[full] || len(distinct) < 24) {
		c.res.Viol = append(c.res.Viol, Violation{Sig: full, Class: class, Detail: detail})
	}
	c.Note("VIOLATION %s/%s: %s", class, sig, detail)
}

// Unexplained counts the violations collected so far that no known finding absorbs. Loops that stop early once
// "enough" has been found use this count, so that witnesses of a known finding never cut an exploration short.
func (c *CaseCtx) Unexplained() int {
	n := 0
	for _, v := range c.res.Viol {
		if matchKnownIn(c.known, v) == nil {
			n++
		}
	}
	return n
}

func (c *CaseCtx) Inconclusive(why string) {
	if c.res.Verdict == "held" {
		c.res.Verdict = "inconclusive"
	}
	c.res.Note += why + "; "
}

func (c *CaseCtx) Violated() bool { return c.res.Verdict == "violated" }

func (c *CaseCtx) Nontrivial(b bool) { c.res.Nontrivial = b }

func (c *CaseCtx) Sample(v interface{}) { c.res.Sample = v }

// Dir returns a fresh sub-directory path of the scratch area (not created).
func (c *CaseCtx) Dir(name string) string { return filepath.Join(c.Scratch, name) }

type Check struct {
	ID            string
	Level         string // exploration | fault_enumeration
	NCases        func(tier string) int
	Run           func(c *CaseCtx)
	Rule          string
	Assumptions   []string
	Workers       int                                            // 0 => 16
	CaseTimeout   time.Duration                                  // watchdog per worker (whole shard); 0 => default
	CaseDeadline  time.Duration                                  // per case; 0 => 4 min quick / 15 min thorough
	Floor         func(tier string, agg map[string]int64) string // coverage floor: non-empty => harness error
	Post          func(d *driverState)                           // optional extra aggregation (race logs ...)
	NoLeakMonitor bool                                           // fault-injection / fuzz checks: error paths are not held to the handle rule
	LeakClass     string                                         // non-empty: handles still held at the end of a case are a violation of this class
}

var checks = map[string]*Check{}

// faultInjectedInCase is set by the fault injector: error paths after an injected I/O error are not held to
// the "no handle left behind" rule of the resource monitor.
var faultInjectedInCase int32

func register(c *Check) { checks[c.ID] = c }

func caseSeed(prop string, seed int64, i int) int64 {
	h := fnv.New64a()
	fmt.Fprintf(h, "%s/%d/%d", prop, seed, i)
	return int64(h.Sum64() & 0x7fffffffffffffff)
}

func scratchBase() string {
	if s := os.Getenv("VERIF_SCRATCH"); s != "" {
		return s
	}
	if st, err := os.Stat("/dev/shm"); err == nil && st.IsDir() {
		return "/dev/shm"
	}
	return os.TempDir()
}

func runOneCase(ck *Check, tier string, seed int64, i, n int, scratchRoot string) (res CaseResult) {
	res = CaseResult{Case: i, Verdict: "held"}
	dir := filepath.Join(scratchRoot, fmt.Sprintf("case%d", i))
	os.RemoveAll(dir)
	os.MkdirAll(dir, 0755)
	defer os.RemoveAll(dir)
	c := &CaseCtx{Prop: ck.ID, Tier: tier, Seed: seed, Case: i, NCases: n,
		Rng: rand.New(rand.NewSource(caseSeed(ck.ID, seed, i))), Scratch: dir, res: &res,
		known: loadKnownFindings(filepath.Join(verifRoot(), "KNOWN_FINDINGS.txt"), ck.ID)}
	atomic.StoreInt32(&faultInjectedInCase, 0)
	func() {
		defer func() {
			if p := recover(); p != nil {
				// a panic that escaped the per-call recovery: harness bug or library panic on an unexpected path
				c.Violate("panic:escaped:"+panicClass(p), "harness", fmt.Sprintf("panic escaped the case: %v", p))
			}
		}()
		ck.Run(c)
	}()
	if res.Verdict == "held" && !ck.NoLeakMonitor && atomic.LoadInt32(&faultInjectedInCase) == 0 {
		// resource monitor: the case has closed every database it opened, so the process must hold no descriptor
		// and no mapping of a file below the case's scratch directory any more. Counted for every check; a verdict
		// only where the check names a class for it (the Merge checks: a handle leaked per Merge is what makes Open
		// and Commit fail with ENOMEM / EMFILE in a long-running process).
		fds, maps := leakedHandles(dir + string(os.PathSeparator))
		c.Stat("handles_leaked_fd", int64(len(fds)))
		c.Stat("handles_leaked_mmap", int64(len(maps)))
		c.Stat("handle_leak_checks", 1)
		if lc := leakClassOf(ck); lc != "" {
			if len(maps) > 0 {
				c.Violate("resource-leak:mmap", lc, fmt.Sprintf("after the case closed every database, %d memory mappings of database files are still held by the process (they are never released: a long-running process runs into ENOMEM), e.g. %s", len(maps), firstN(strings.Join(maps, " , "), 600)))
			}
			if len(fds) > 0 {
				c.Violate("resource-leak:fd", lc, fmt.Sprintf("after the case closed every database, %d descriptors of database files are still open (released only if a finalizer happens to run), e.g. %s", len(fds), firstN(strings.Join(fds, " , "), 600)))
			}
		}
	}
	res.FP = strconv.FormatUint(c.fp.h, 16)
	if res.Verdict == "violated" {
		h := c.hist
		if len(h) > 400 {
			h = append(append([]string{}, h[:50]...), append([]string{fmt.Sprintf("# ... %d lines elided ...", len(h)-350)}, h[len(h)-300:]...)...)
		}
		res.History = h
	}
	return
}

// ---------------------------------------------------------------- worker

func workerMain(args []string) {
	if len(args) != 6 {
		fmt.Fprintln(os.Stderr, "usage: vcheck worker PROP TIER SEED SHARD NSHARDS OUTFILE")
		os.Exit(2)
	}
	ck := checks[args[0]]
	if ck == nil {
		fmt.Fprintln(os.Stderr, "unknown property", args[0])
		os.Exit(2)
	}
	tier := args[1]
	seed, _ := strconv.ParseInt(args[2], 10, 64)
	shard, _ := strconv.Atoi(args[3])
	nsh, _ := strconv.Atoi(args[4])
	f, err := os.OpenFile(args[5], os.O_CREATE|os.O_WRONLY|os.O_APPEND, 0644)
	if err != nil {
		fmt.Fprintln(os.Stderr, err)
		os.Exit(2)
	}
	defer f.Close()
	n := ck.NCases(tier)
	root, err := ioutil.TempDir(scratchBase(), fmt.Sprintf("verif-%s-%d-", ck.ID, shard))
	if err != nil {
		fmt.Fprintln(os.Stderr, err)
		os.Exit(2)
	}
	defer os.RemoveAll(root)
	only := -1
	if s := os.Getenv("VERIF_ONLY_CASE"); s != "" {
		only, _ = strconv.Atoi(s)
	}
	for i := shard; i < n; i += nsh {
		if only >= 0 && i != only {
			continue
		}
		fmt.Fprintf(f, "B %d\n", i)
		done := make(chan CaseResult, 1)
		go func() { done <- runOneCase(ck, tier, seed, i, n, root) }()
		deadline := ck.CaseDeadline
		if deadline == 0 {
			deadline = 4 * time.Minute // a watchdog only (its firing is inconclusive): generous, the machine may be loaded
			if tier == "thorough" {
				deadline = 15 * time.Minute
			}
		}
		var res CaseResult
		select {
		case res = <-done:
		case <-time.After(deadline):
			// the case is stuck. Structural judgement: a goroutine parked on the database's RWMutex means a
			// lock was never released (a panic or an early return inside the library) => violation; anything
			// else is inconclusive. Either way this worker cannot continue.
			buf := make([]byte, 1<<20)
			buf = buf[:runtime.Stack(buf, true)]
			st := string(buf)
			res = CaseResult{Case: i, FP: fmt.Sprintf("stuck-%d", i), Verdict: "inconclusive", Note: "case exceeded its deadline"}
			if lockDeadlocked(st) {
				res.Verdict = "violated"
				res.Viol = []Violation{{Sig: ck.ID + "/hang/lock-never-released", Class: "hang",
					Detail: "the case blocked for ever on the database lock (a transaction ended without releasing it, or two lock acquisitions deadlocked):\n" + firstN(st, 3000)}}
				res.History = []string{"# stuck; rerun with VERIF_TRACE=1 VERIF_ONLY_CASE=" + strconv.Itoa(i)}
			}
			b, _ := json.Marshal(res)
			fmt.Fprintf(f, "R %s\n", b)
			fmt.Fprintf(f, "ABORTED\n")
			f.Close()
			os.RemoveAll(root)
			os.Exit(3)
		}
		b, _ := json.Marshal(res)
		fmt.Fprintf(f, "R %s\n", b)
	}
	fmt.Fprintf(f, "DONE\n")
}

// lockDeadlocked is the structural judgement on the goroutine dump of a case that exceeded its deadline:
// true only if at least one goroutine with a nutsdb frame is parked on a mutex and NO goroutine with a
// nutsdb frame is in any other state.  A goroutine that is running, runnable, in a syscall, sleeping in a
// yield hook ... inside the library means the case is slow (it still holds the lock legitimately), which
// is inconclusive and never a violation: the deadline is wall-clock and must not decide a verdict.
func lockDeadlocked(dump string) bool {
	parked, other := 0, 0
	for _, blk := range strings.Split(dump, "\n\n") {
		if !strings.HasPrefix(blk, "goroutine ") || !strings.Contains(blk, "xujiajun/nutsdb.") {
			continue
		}
		hdr := blk
		if k := strings.Index(blk, "\n"); k >= 0 {
			hdr = blk[:k]
		}
		state := ""
		if a, b := strings.Index(hdr, "["), strings.Index(hdr, "]"); a >= 0 && b > a {
			state = hdr[a+1 : b]
		}
		if k := strings.Index(state, ","); k >= 0 {
			state = state[:k]
		}
		switch state {
		case "sync.RWMutex.Lock", "sync.RWMutex.RLock", "sync.Mutex.Lock", "semacquire":
			parked++
		default:
			other++
		}
	}
	return parked > 0 && other == 0
}

// ---------------------------------------------------------------- driver

type driverState struct {
	ck       *Check
	tier     string
	seed     int64
	results  []CaseResult
	agg      map[string]int64
	extra    map[string]interface{}
	viol     []Violation // unexplained
	known    map[string]*knownFinding
	kfSeen   map[string]string // kf id -> example detail
	kfSigs   map[string]int    // "kf id <= signature" -> witnesses
	replays  []string
	incon    int
	harnessE []string
	workDir  string
}

func verifRoot() string {
	if s := os.Getenv("VERIF_ROOT"); s != "" {
		return s
	}
	exe, err := os.Executable()
	if err == nil {
		// /verif/bin/vcheck -> /verif
		return filepath.Dir(filepath.Dir(exe))
	}
	return "/verif"
}

func driverMain(prop, tier string) int {
	ck := checks[prop]
	if ck == nil {
		fmt.Fprintln(os.Stderr, "unknown property", prop)
		return 2
	}
	if tier != "quick" && tier != "thorough" {
		fmt.Fprintln(os.Stderr, "tier must be quick or thorough")
		return 2
	}
	seed := int64(1)
	if s := os.Getenv("VERIF_SEED"); s != "" {
		if v, err := strconv.ParseInt(s, 10, 64); err == nil {
			seed = v
		}
	}
	t0 := time.Now()
	n := ck.NCases(tier)
	nsh := ck.Workers
	if nsh == 0 {
		nsh = 16
	}
	if nsh > n {
		nsh = n
	}
	if s := os.Getenv("VERIF_WORKERS"); s != "" {
		if v, err := strconv.Atoi(s); err == nil && v > 0 && v < nsh {
			nsh = v
		}
	}
	d := &driverState{ck: ck, tier: tier, seed: seed, agg: map[string]int64{}, extra: map[string]interface{}{},
		kfSeen: map[string]string{}}
	d.known = loadKnownFindings(filepath.Join(verifRoot(), "KNOWN_FINDINGS.txt"), prop)
	work, err := ioutil.TempDir(scratchBase(), "verif-drv-"+prop+"-")
	if err != nil {
		fmt.Fprintln(os.Stderr, err)
		return 2
	}
	d.workDir = work
	defer os.RemoveAll(work)

	timeout := ck.CaseTimeout
	if timeout == 0 {
		timeout = 20 * time.Minute
		if tier == "thorough" {
			timeout = 3 * time.Hour
		}
	}
	exe, _ := os.Executable()
	var wg sync.WaitGroup
	type wres struct {
		shard   int
		err     error
		timeout bool
	}
	wr := make([]wres, nsh)
	for s := 0; s < nsh; s++ {
		wg.Add(1)
		go func(s int) {
			defer wg.Done()
			out := filepath.Join(work, fmt.Sprintf("w%d.out", s))
			errf, _ := os.Create(filepath.Join(work, fmt.Sprintf("w%d.err", s)))
			defer errf.Close()
			cmd := exec.Command(exe, "worker", prop, tier, strconv.FormatInt(seed, 10), strconv.Itoa(s), strconv.Itoa(nsh), out)
			cmd.Stdout = errf
			cmd.Stderr = errf
			// the workers' scratch directories live below the driver's work directory, which the driver removes when
			// it ends - also when a worker died and could not clean up after itself
			cmd.Env = append(os.Environ(), "GORACE=halt_on_error=0 log_path="+filepath.Join(work, fmt.Sprintf("race%d", s)), "VERIF_SCRATCH="+work)
			if err := cmd.Start(); err != nil {
				wr[s] = wres{s, err, false}
				return
			}
			done := make(chan error, 1)
			go func() { done <- cmd.Wait() }()
			select {
			case err := <-done:
				wr[s] = wres{s, err, false}
			case <-time.After(timeout):
				cmd.Process.Signal(syscall.SIGQUIT)
				select {
				case <-done:
				case <-time.After(10 * time.Second):
					cmd.Process.Kill()
					<-done
				}
				wr[s] = wres{s, fmt.Errorf("watchdog"), true}
			}
		}(s)
	}
	wg.Wait()

	// collect
	for s := 0; s < nsh; s++ {
		out := filepath.Join(work, fmt.Sprintf("w%d.out", s))
		f, err := os.Open(out)
		open := -1
		done := false
		if err == nil {
			sc := bufio.NewScanner(f)
			sc.Buffer(make([]byte, 1<<20), 1<<28)
			for sc.Scan() {
				ln := sc.Text()
				switch {
				case strings.HasPrefix(ln, "B "):
					open, _ = strconv.Atoi(ln[2:])
				case strings.HasPrefix(ln, "R "):
					var r CaseResult
					if json.Unmarshal([]byte(ln[2:]), &r) == nil {
						d.results = append(d.results, r)
						open = -1
					}
				case ln == "DONE":
					done = true
				case ln == "ABORTED":
					done = true
					d.harnessE = append(d.harnessE, fmt.Sprintf("worker %d gave up after a stuck case; the rest of its shard was not run", s))
				}
			}
			f.Close()
		}
		if !done {
			stderrTail := tailFile(filepath.Join(work, fmt.Sprintf("w%d.err", s)), 6000)
			if wr[s].timeout {
				d.incon++
				d.harnessE = append(d.harnessE, fmt.Sprintf("worker %d stopped by the watchdog (case %d open): inconclusive", s, open))
				continue
			}
			// the process died: fatal runtime error (concurrent map access, stack overflow, OOM ...) or harness crash
			sig := "fatal:" + fatalClass(stderrTail)
			r := CaseResult{Case: open, Verdict: "violated", FP: fmt.Sprintf("dead-%d", open),
				Viol:    []Violation{{Sig: prop + "/process-death/" + sig, Class: "process-death", Detail: fmt.Sprintf("worker process died while running case %d: %v\n%s", open, wr[s].err, stderrTail)}},
				History: []string{"# worker died; rerun with VERIF_ONLY_CASE=" + strconv.Itoa(open)}}
			d.results = append(d.results, r)
		}
	}
	sort.Slice(d.results, func(i, j int) bool { return d.results[i].Case < d.results[j].Case })

	if ck.Post != nil {
		ck.Post(d)
	}

	// aggregate
	distinct := map[string]bool{}
	var samples []interface{}
	verdicts := map[string]int{}
	for _, r := range d.results {
		verdicts[r.Verdict]++
		for k, v := range r.Stats {
			if strings.HasPrefix(k, "max_") {
				if v > d.agg[k] {
					d.agg[k] = v
				}
			} else {
				d.agg[k] += v
			}
		}
		if r.Nontrivial {
			distinct[r.FP] = true
		}
		if r.Sample != nil && len(samples) < 3 {
			samples = append(samples, r.Sample)
		}
		if r.Verdict == "inconclusive" {
			d.incon++
		}
		for _, v := range r.Viol {
			if kf := d.matchKnown(v); kf != nil {
				if _, ok := d.kfSeen[kf.ID]; !ok {
					d.kfSeen[kf.ID] = firstLine(v.Detail)
				}
				if d.kfSigs == nil {
					d.kfSigs = map[string]int{}
				}
				d.kfSigs[kf.ID+" <= "+v.Sig]++
				d.agg["known_finding_witnesses"]++
				continue
			}
			d.viol = append(d.viol, v)
			if len(d.replays) < 20 {
				d.replays = append(d.replays, d.writeReplay(r, v))
			}
		}
	}

	exit := 0
	for id, kf := range d.known {
		if ex, ok := d.kfSeen[id]; ok {
			fmt.Printf("KNOWN-FINDING: property=%s %s [%s] witness: %s\n", prop, kf.Desc, id, ex)
		} else {
			fmt.Printf("note: known finding %s of %s not re-observed in this run (%s)\n", id, prop, kf.Desc)
		}
	}
	seenSig := map[string]bool{}
	for i, v := range d.viol {
		if i < len(d.replays) {
			fmt.Printf("VIOLATION property=%s replay=%s\n", prop, d.replays[i])
		}
		if !seenSig[v.Sig] && len(seenSig) < 10 {
			seenSig[v.Sig] = true
			fmt.Printf("  signature: %s\n  %s\n", v.Sig, indent(firstN(v.Detail, 1500)))
		}
		exit = 1
	}
	floorMsg := ""
	if ck.Floor != nil && exit == 0 {
		floorMsg = ck.Floor(tier, d.agg)
	}
	if len(d.results) == 0 {
		floorMsg = "no case produced a result"
	}
	for _, e := range d.harnessE {
		fmt.Println("harness:", e)
	}
	if floorMsg != "" {
		fmt.Printf("HARNESS-ERROR property=%s coverage floor not met: %s\n", prop, floorMsg)
		exit = 2
	}

	wall := time.Since(t0).Seconds()
	covTable := map[string]int64{}
	measured := map[string]int64{}
	for k, v := range d.agg {
		if strings.HasPrefix(k, "cov:") {
			covTable[k[4:]] = v
		} else {
			measured[k] = v
		}
	}
	if len(covTable) > 0 {
		d.extra["method_state_outcome_counts"] = covTable
		measured["method_state_outcome_combinations"] = int64(len(covTable))
	}
	cov := map[string]interface{}{
		"evaluations":         len(d.results),
		"distinct_nontrivial": len(distinct),
		"rule":                ck.Rule,
		"samples":             samples,
		"verdicts":            verdicts,
		"inconclusive":        d.incon,
		"measured":            measured,
		"workers":             nsh,
	}
	for k, v := range d.extra {
		cov[k] = v
	}
	var kfs []string
	for id := range d.kfSeen {
		kfs = append(kfs, id)
	}
	sort.Strings(kfs)
	cov["known_findings_reobserved"] = kfs
	if len(d.kfSigs) > 0 {
		cov["known_finding_signatures"] = d.kfSigs
	}
	if len(samples) == 0 {
		cov["samples"] = []interface{}{"(no sample recorded)"}
	}
	ev := map[string]interface{}{
		"property_id": prop, "tier": tier, "seed": seed, "level": ck.Level,
		"coverage": cov, "assumptions": ck.Assumptions, "wall_s": wall, "violations": len(d.viol),
	}
	evb, _ := json.MarshalIndent(ev, "", " ")
	evdir := filepath.Join(verifRoot(), "evidence")
	os.MkdirAll(evdir, 0755)
	ioutil.WriteFile(filepath.Join(evdir, prop+".json"), evb, 0644)

	fmt.Printf("%s %s seed=%d: %d cases (%d distinct non-trivial), verdicts %v, %d unexplained violation(s), %d known-finding witness(es), %.1fs\n",
		prop, tier, seed, len(d.results), len(distinct), verdicts, len(d.viol), d.agg["known_finding_witnesses"], wall)
	keys := make([]string, 0, len(d.agg))
	for k := range d.agg {
		if strings.HasPrefix(k, "cov:") {
			continue
		}
		keys = append(keys, k)
	}
	sort.Strings(keys)
	var sb strings.Builder
	for _, k := range keys {
		fmt.Fprintf(&sb, " %s=%d", k, d.agg[k])
	}
	fmt.Println("  observed:" + sb.String())
	return exit
}

func (d *driverState) writeReplay(r CaseResult, v Violation) string {
	dir := filepath.Join(verifRoot(), "replays", d.ck.ID)
	os.MkdirAll(dir, 0755)
	name := filepath.Join(dir, fmt.Sprintf("%s-seed%d-case%d.json", d.tier, d.seed, r.Case))
	rep := map[string]interface{}{
		"property": d.ck.ID, "tier": d.tier, "seed": d.seed, "case": r.Case,
		"signature": v.Sig, "detail": v.Detail, "history": r.History,
		"rerun": fmt.Sprintf("./check replay %s", name),
	}
	b, _ := json.MarshalIndent(rep, "", " ")
	ioutil.WriteFile(name, b, 0644)
	return name
}

func replayMain(file string) int {
	b, err := ioutil.ReadFile(file)
	if err != nil {
		fmt.Fprintln(os.Stderr, err)
		return 2
	}
	var rep struct {
		Property string
		Tier     string
		Seed     int64
		Case     int
	}
	if err := json.Unmarshal(b, &rep); err != nil {
		fmt.Fprintln(os.Stderr, err)
		return 2
	}
	ck := checks[rep.Property]
	if ck == nil {
		fmt.Fprintln(os.Stderr, "unknown property in replay file")
		return 2
	}
	root, _ := ioutil.TempDir(scratchBase(), "verif-replay-")
	defer os.RemoveAll(root)
	res := runOneCase(ck, rep.Tier, rep.Seed, rep.Case, ck.NCases(rep.Tier), root)
	for _, h := range res.History {
		fmt.Println(h)
	}
	fmt.Printf("replay of %s case %d (tier %s, seed %d): %s\n", rep.Property, rep.Case, rep.Tier, rep.Seed, res.Verdict)
	for _, v := range res.Viol {
		fmt.Printf("  %s\n  %s\n", v.Sig, indent(v.Detail))
	}
	if res.Verdict == "violated" {
		return 1
	}
	return 0
}

func tailFile(path string, n int) string {
	b, err := ioutil.ReadFile(path)
	if err != nil {
		return ""
	}
	// keep the head of the fatal message (first lines) and the tail
	if len(b) > n {
		b = append(append([]byte{}, b[:n/2]...), append([]byte("\n...\n"), b[len(b)-n/2:]...)...)
	}
	return string(b)
}

func fatalClass(stderr string) string {
	for _, ln := range strings.Split(stderr, "\n") {
		if strings.HasPrefix(ln, "fatal error:") || strings.HasPrefix(ln, "panic:") || strings.HasPrefix(ln, "runtime:") {
			return panicClass(strings.TrimSpace(ln))
		}
	}
	for _, ln := range strings.Split(stderr, "\n") {
		if strings.Contains(ln, "signal:") || strings.Contains(ln, "killed") {
			return panicClass(strings.TrimSpace(ln))
		}
	}
	return "unknown"
}

func firstLine(s string) string {
	if i := strings.IndexByte(s, '\n'); i >= 0 {
		s = s[:i]
	}
	return firstN(s, 300)
}

func firstN(s string, n int) string {
	if len(s) > n {
		return s[:n] + "..."
	}
	return s
}

func indent(s string) string { return strings.Replace(s, "\n", "\n  ", -1) }

// ---------------------------------------------------------------- known findings

type knownFinding struct {
	ID   string
	Prop string
	Sig  string // exact signature, or prefix when it ends in '*'
	Desc string
}

func loadKnownFindings(path, prop string) map[string]*knownFinding {
	out := map[string]*knownFinding{}
	b, err := ioutil.ReadFile(path)
	if err != nil {
		return out
	}
	for _, ln := range bytes.Split(b, []byte("\n")) {
		s := strings.TrimSpace(string(ln))
		if !strings.HasPrefix(s, "finding:") {
			continue
		}
		s = strings.TrimSpace(strings.TrimPrefix(s, "finding:"))
		desc := ""
		if i := strings.Index(s, " :: "); i >= 0 {
			desc = s[i+4:]
			s = s[:i]
		}
		kf := &knownFinding{Desc: desc}
		for _, f := range strings.Fields(s) {
			switch {
			case strings.HasPrefix(f, "property="):
				kf.Prop = f[9:]
			case strings.HasPrefix(f, "kf="):
				kf.ID = f[3:]
			case strings.HasPrefix(f, "sig="):
				kf.Sig = strings.Replace(f[4:], "~", " ", -1) // '~' stands for a space (fields are whitespace-delimited)
			}
		}
		if kf.Prop == prop && kf.ID != "" && kf.Sig != "" {
			out[kf.ID] = kf
		}
	}
	return out
}

func (d *driverState) matchKnown(v Violation) *knownFinding { return matchKnownIn(d.known, v) }

func matchKnownIn(known map[string]*knownFinding, v Violation) *knownFinding {
	for _, kf := range known {
		if strings.HasSuffix(kf.Sig, "*") {
			if strings.HasPrefix(v.Sig, kf.Sig[:len(kf.Sig)-1]) {
				return kf
			}
		} else if v.Sig == kf.Sig {
			return kf
		}
	}
	return nil
}

// ---------------------------------------------------------------- main

func main() {
	if len(os.Args) < 2 {
		fmt.Fprintln(os.Stderr, "usage: vcheck PROP quick|thorough | vcheck worker ... | vcheck replay FILE | vcheck list")
		os.Exit(2)
	}
	switch os.Args[1] {
	case "worker":
		workerMain(os.Args[2:])
	case "replay":
		os.Exit(replayMain(os.Args[2]))
	case "auditchild":
		os.Exit(auditChildMain(os.Args[2:]))
	case "list":
		var ids []string
		for id := range checks {
			ids = append(ids, id)
		}
		sort.Strings(ids)
		fmt.Println(strings.Join(ids, " "))
	default:
		tier := "quick"
		if len(os.Args) > 2 {
			tier = os.Args[2]
		}
		os.Exit(driverMain(os.Args[1], tier))
	}
}

func leakClassOf(ck *Check) string {
	if ck.LeakClass != "" {
		return ck.LeakClass
	}
	if os.Getenv("VERIF_LEAK_ALL") != "" {
		return "resource-leak"
	}
	return ""
}
