package main

import (
	"fmt"
	"io/ioutil"
	"os"
	"path/filepath"
	"runtime/debug"
	"sort"
	"strings"

	"github.com/xujiajun/nutsdb"
)

// C21, database level: records are damaged where the library stored them (data segments, sparse root-index
// files, bucket meta files) and read through the public API - with the handle that indexed them still open
// (KeyOnly and sparse modes read values from disk on every Get/scan) and after a reopen. Oracle: whatever a
// read returns must be a pair that some committed transaction wrote under that key; an error, "not found" or
// a failing Open are the allowed ways of not serving a damaged record.

// pairsOfEntries parses the canonical rendering of a scan/GetAll result back into pairs.
func checkServedPairs(c *CaseCtx, class, what string, db *nutsdb.DB, u *Universe, written map[string]map[string]bool) {
	b := u.Buckets[0]
	db.View(func(tx *nutsdb.Tx) (err error) {
		defer func() {
			if p := recover(); p != nil {
				st := string(debug.Stack())
				c.Violate("panic:read-after-corruption:"+panicClass(p)+" @"+firstRepoFrame(st), class, fmt.Sprintf("a read panicked after %s: %v\n%s", what, p, firstN(st, 2500)))
			}
		}()
		bad := func(api string, k, v []byte) {
			c.Violate("corruption-served:"+api, class, fmt.Sprintf("after %s, %s returned %s=%s, which no transaction ever wrote under that key (written values: %s)", what, api, q(k), q(v), firstN(keysOf(written[string(k)]), 300)))
		}
		for _, k := range u.KVKeys {
			e, gerr := tx.Get(b, k)
			c.Stat("db_level_reads", 1)
			if gerr != nil || e == nil {
				c.Stat("db_level_read_refused", 1)
				continue
			}
			if !written[string(k)][string(e.Value)] || string(e.Key) != string(k) {
				bad("Get", e.Key, e.Value)
			}
		}
		scans := map[string]func() (nutsdb.Entries, error){
			"GetAll":     func() (nutsdb.Entries, error) { return tx.GetAll(b) },
			"RangeScan":  func() (nutsdb.Entries, error) { return tx.RangeScan(b, []byte{0}, []byte{0xff, 0xff, 0xff}) },
			"PrefixScan": func() (nutsdb.Entries, error) { es, _, err := tx.PrefixScan(b, []byte("k"), 0, 1<<20); return es, err },
		}
		for _, api := range []string{"GetAll", "RangeScan", "PrefixScan"} {
			es, serr := scans[api]()
			c.Stat("db_level_reads", 1)
			if serr != nil {
				c.Stat("db_level_read_refused", 1)
				continue
			}
			for _, e := range es {
				if e == nil {
					continue
				}
				if !written[string(e.Key)][string(e.Value)] {
					bad(api, e.Key, e.Value)
				}
			}
		}
		return nil
	})
}

func keysOf(m map[string]bool) string {
	var ks []string
	for k := range m {
		ks = append(ks, fmt.Sprintf("%q", k))
	}
	sort.Strings(ks)
	return strings.Join(ks, ",")
}

func flipBitInFile(path string, off int64, bit uint) error {
	f, err := os.OpenFile(path, os.O_RDWR, 0644)
	if err != nil {
		return err
	}
	defer f.Close()
	var b [1]byte
	if _, err := f.ReadAt(b[:], off); err != nil {
		return err
	}
	b[0] ^= 1 << bit
	_, err = f.WriteAt(b[:], off)
	return err
}

func runC21DB(c *CaseCtx) {
	r := c.Rng
	cfg := randCfg(r, []int{1, 1, 2, 0}, 260, 700)
	class := "codec-db-" + []string{"keyval", "keyonly", "sparse"}[cfg.Mode]
	u := &Universe{Buckets: []string{"bk"}}
	for i := 0; i < 6+r.Intn(8); i++ {
		u.KVKeys = append(u.KVKeys, []byte(fmt.Sprintf("k%02d%s", i, strings.Repeat("-long", i%4))))
	}
	dir := c.Dir("db")
	mon := NewFSMon(dir)
	mon.Record = true
	mon.Install()
	db, err := openNoPanic(cfg.Options(dir))
	if err != nil {
		mon.Uninstall()
		c.Violate("open-failed:"+errClass(err.Error()), class, "Open failed: "+err.Error())
		return
	}
	written := map[string]map[string]bool{}
	ctr := 0
	ntx := 25 + r.Intn(30)
	for i := 0; i < ntx; i++ {
		nops := 1 + r.Intn(3)
		type kv struct{ k, v []byte }
		var kvs []kv
		for j := 0; j < nops; j++ {
			ctr++
			k := u.KVKeys[r.Intn(len(u.KVKeys))]
			kvs = append(kvs, kv{k, []byte(fmt.Sprintf("%s-value-%d-%s", k, ctr, strings.Repeat("x", r.Intn(30))))})
		}
		err := db.Update(func(tx *nutsdb.Tx) error {
			for _, p := range kvs {
				if r.Intn(8) == 0 {
					if err := tx.Delete("bk", p.k); err != nil {
						return err
					}
					continue
				}
				if err := tx.Put("bk", p.k, p.v, 0); err != nil {
					return err
				}
			}
			return nil
		})
		if err != nil {
			mon.Uninstall()
			c.Violate("commit-error:"+errClass(err.Error()), class, "commit failed: "+err.Error())
			db.Close()
			return
		}
		for _, p := range kvs {
			if written[string(p.k)] == nil {
				written[string(p.k)] = map[string]bool{}
			}
			written[string(p.k)][string(p.v)] = true // (a Delete drawn instead of the Put only makes the set larger than needed)
		}
	}
	mon.Uninstall()
	c.Log("cfg %s keys=%d transactions=%d", cfg, len(u.KVKeys), ntx)
	if cfg.Mode == 2 {
		checkRootIdxFiles(c, db, dir, class)
	}
	// where the records are: every write event on a data segment is one encoded record
	type rec struct {
		path string
		off  int64
		n    int
	}
	var recs []rec
	for _, ev := range mon.Events {
		if ev.Op == "write" && strings.HasSuffix(ev.Path, ".dat") && len(ev.Data) >= 42 {
			recs = append(recs, rec{ev.Path, ev.Off, len(ev.Data)})
		}
	}
	heavy := heavyBits(12, 16, 26)
	// ---- phase A: damage a stored record while the handle that indexed it is open, read, repair
	nA := 40
	if cfg.Mode == 0 {
		nA = 4 // values are served from memory in this mode; the disk is only read at Open
	}
	for i := 0; i < nA && len(recs) > 0 && !c.Violated(); i++ {
		rc := recs[r.Intn(len(recs))]
		p := filepath.Join(dir, rc.path)
		if _, err := os.Stat(p); err != nil {
			continue
		}
		bit := r.Intn(rc.n * 8)
		if heavy(bit) {
			continue
		}
		if r.Intn(2) == 0 && rc.n > 43 { // prefer the payload: bucket / key / value bytes
			bit = (42 + r.Intn(rc.n-42)) * 8
		}
		if err := flipBitInFile(p, rc.off+int64(bit/8), uint(bit%8)); err != nil {
			continue
		}
		c.Stat("db_level_live_corruptions", 1)
		checkServedPairs(c, class, fmt.Sprintf("flipping bit %d of the record at %s+%d (%d bytes) under the open handle (%s)", bit, rc.path, rc.off, rc.n, cfg), db, u, written)
		flipBitInFile(p, rc.off+int64(bit/8), uint(bit%8)) // repair
	}
	if c.Violated() {
		db.Close()
		return
	}
	if err := db.Close(); err != nil {
		c.Violate("close-failed", class, err.Error())
		return
	}
	// ---- phase B: damage a stored file, reopen
	snap := readTree(dir)
	var targets []string
	for p := range snap {
		if strings.HasSuffix(p, ".dat") || strings.HasSuffix(p, ".bptridx") || strings.HasSuffix(p, ".meta") {
			targets = append(targets, p)
		}
	}
	sort.Strings(targets)
	for i := 0; i < 24 && len(targets) > 0 && !c.Violated(); i++ {
		p := targets[r.Intn(len(targets))]
		content := append([]byte{}, snap[p]...)
		if len(content) == 0 {
			continue
		}
		what := ""
		if strings.HasSuffix(p, ".dat") && len(recs) > 0 && r.Intn(4) != 0 {
			// a bit of a record of this segment (or, if none is known, of its first bytes)
			var mine []rec
			for _, rc := range recs {
				if rc.path == p && int(rc.off)+rc.n <= len(content) {
					mine = append(mine, rc)
				}
			}
			if len(mine) == 0 {
				continue
			}
			rc := mine[r.Intn(len(mine))]
			bit := r.Intn(rc.n * 8)
			if heavy(bit) {
				continue
			}
			content[int(rc.off)+bit/8] ^= 1 << uint(bit%8)
			what = fmt.Sprintf("flipping bit %d of the record at %s+%d", bit, p, rc.off)
		} else if r.Intn(2) == 0 {
			l := r.Intn(len(content))
			content = content[:l]
			what = fmt.Sprintf("truncating %s to %d bytes", p, l)
		} else {
			bit := r.Intn(len(content) * 8)
			if strings.HasSuffix(p, ".dat") {
				continue // unknown record boundaries: covered by the branch above
			}
			// small index records: byte offsets 4..11 (.meta sizes) and 20..27 (.bptridx sizes) hold length fields
			by := bit / 8
			if (strings.HasSuffix(p, ".meta") && (by == 7 || by == 11 || by == 6 || by == 10)) || (strings.HasSuffix(p, ".bptridx") && (by == 23 || by == 27 || by == 22 || by == 26)) {
				continue
			}
			content[by] ^= 1 << uint(bit%8)
			what = fmt.Sprintf("flipping bit %d of %s", bit, p)
		}
		img := c.Dir("img")
		os.RemoveAll(img)
		files := map[string][]byte{}
		for k, v := range snap {
			files[k] = v
		}
		files[p] = content
		if err := writeTree(img, listDirs(dir), files); err != nil {
			c.Inconclusive("could not write image: " + err.Error())
			continue
		}
		c.Stat("db_level_reopen_corruptions", 1)
		db2, err := openNoPanic(cfg.Options(img))
		if err != nil {
			if strings.HasPrefix(err.Error(), "PANIC") {
				c.Violate("panic:Open-after-corruption:"+errClass(err.Error()), class, fmt.Sprintf("Open panicked after %s (%s): %v", what, cfg, err))
			}
			c.Stat("db_level_open_refused", 1)
			continue
		}
		checkServedPairs(c, class, what+" and reopening ("+cfg.String()+")", db2, u, written)
		db2.Close()
	}
	os.RemoveAll(c.Dir("img"))
	c.Stat("db_level_histories", 1)
	c.Nontrivial(len(recs) >= 20)
	if c.Case%16 == 0 {
		c.Sample(map[string]interface{}{"kind": "database-level", "config": cfg.String(), "records_on_disk": len(recs), "files": len(targets)})
	}
	_ = ioutil.Discard
}

// checkRootIdxFiles compares every sealed segment's root-index record as the running sparse database holds it in
// memory with what the file bpt/root/<fid>.bptridx decodes to: "every record the library writes decodes to exactly
// the fields that were written".
func checkRootIdxFiles(c *CaseCtx, db *nutsdb.DB, dir, class string) {
	for _, want := range db.VerifRootIdxes() {
		p := filepath.Join(dir, "bpt", "root", fmt.Sprintf("%d.bptridx", want.FID))
		fd, err := os.Open(p)
		if err != nil {
			c.Violate("root-index-file-missing", class, fmt.Sprintf("the root-index record of segment %d is held in memory but %s cannot be opened: %v", want.FID, p, err))
			continue
		}
		rec, err := nutsdb.ReadBPTreeRootIdxAt(fd, 0)
		fd.Close()
		c.Stat("root_index_files_compared", 1)
		if err != nil || rec == nil {
			c.Violate("root-index-file-unreadable", class, fmt.Sprintf("the stored root-index record of segment %d does not read back: %v", want.FID, err))
			continue
		}
		got := rec.VerifFields()
		if got.FID != want.FID || got.RootOff != want.RootOff || string(got.Start) != string(want.Start) || string(got.End) != string(want.End) {
			c.Violate("round-trip:root-index-file", class, fmt.Sprintf("the stored root-index record of segment %d differs from what was written: stored fid=%d rootOff=%d start=%q end=%q, written fid=%d rootOff=%d start=%q end=%q",
				want.FID, got.FID, got.RootOff, got.Start, got.End, want.FID, want.RootOff, want.Start, want.End))
		}
	}
}
