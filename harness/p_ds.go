package main

import (
	"fmt"
	"math"
	"math/rand"
	"runtime/debug"
	"sort"
	"strconv"

	"github.com/xujiajun/nutsdb/ds/list"
	"github.com/xujiajun/nutsdb/ds/set"
	"github.com/xujiajun/nutsdb/ds/zset"
)

// ===================================================================== exported ds types, direct

const dsB = "ds" // bucket name used for the ds-level model

func recoverRes(r *Res) {
	if p := recover(); p != nil {
		*r = Res{Panic: panicClass(p) + " @" + firstRepoFrame(string(debug.Stack()))}
	}
}

// ---------------------------------------------------------------- list

func execListDS(l *list.List, o Op) (r Res) {
	defer recoverRes(&r)
	k := string(o.Key)
	switch o.K {
	case "RPush", "LPush":
		// the values are passed in a buffer the caller goes on using: with spare capacity, and overwritten after the
		// call (only the outer slice - the library may keep the element slices it was given, but not the caller's
		// argument array)
		buf := make([][]byte, len(o.Vals), len(o.Vals)+3)
		copy(buf, o.Vals)
		var err error
		if o.K == "RPush" {
			_, err = l.RPush(k, buf...)
		} else {
			_, err = l.LPush(k, buf...)
		}
		for i := range buf {
			buf[i] = []byte("\xee-overwritten-by-the-caller")
		}
		_ = append(buf, []byte("\xee-appended-by-the-caller"))
		return okRes(err)
	case "RPop":
		return itemRes(l.RPop(k))
	case "LPop":
		return itemRes(l.LPop(k))
	case "RPeek":
		it, _, err := l.RPeek(k)
		return itemRes(it, err)
	case "LPeek":
		return itemRes(l.LPeek(k))
	case "LSize":
		return intRes(l.Size(k))
	case "LRange":
		return listRes(l.LRange(k, o.I, o.J))
	case "LRem":
		return intRes(l.LRem(k, o.I, o.Val))
	case "LSet":
		return okRes(l.LSet(k, o.I, o.Val))
	case "LTrim":
		return okRes(l.Ltrim(k, o.I, o.J))
	}
	return Res{Err: true, ErrS: "harness: bad list op"}
}

func buildList(r *rand.Rand, items [][]byte, path int) *list.List {
	l := list.New()
	switch path {
	case 0:
		for _, it := range items {
			l.RPush("k", it)
		}
	case 1:
		for i := len(items) - 1; i >= 0; i-- {
			l.LPush("k", items[i])
		}
	default: // noisy: extra elements pushed and popped, LSet used to place values
		l.RPush("k", []byte("junk"))
		for _, it := range items {
			l.RPush("k", []byte("tmp"))
			l.LSet("k", len(l.Items["k"])-1, it)
		}
		l.LPop("k")
		l.LPush("k", []byte("j2"))
		l.RPush("k", []byte("j3"))
		l.RPop("k")
		l.LPop("k")
	}
	if len(items) == 0 && path != 2 {
		// an existing but empty list
		l.RPush("k", []byte("x"))
		l.RPop("k")
	}
	return l
}

var listAlpha = [][]byte{[]byte("a"), []byte("b"), []byte(""), []byte("|"), []byte("a|b")}

func listArgs(n int) []int {
	var a []int
	for i := -n - 2; i <= n+1; i++ {
		a = append(a, i)
	}
	return append(a, math.MinInt64, math.MaxInt64, -(1 << 31), 1<<31)
}

func listOpsFor(n int, vals [][]byte, full bool) []Op {
	key := []byte("k")
	var ops []Op
	for _, v := range vals {
		ops = append(ops, Op{K: "RPush", B: dsB, Key: key, Vals: [][]byte{v}}, Op{K: "LPush", B: dsB, Key: key, Vals: [][]byte{v}})
	}
	if full {
		ops = append(ops, Op{K: "RPush", B: dsB, Key: key, Vals: [][]byte{vals[0], vals[1%len(vals)]}}, Op{K: "LPush", B: dsB, Key: key, Vals: [][]byte{vals[0], vals[1%len(vals)]}})
	}
	for _, k := range []string{"RPop", "LPop", "RPeek", "LPeek", "LSize"} {
		ops = append(ops, Op{K: k, B: dsB, Key: key})
	}
	args := listArgs(n)
	if !full {
		args = []int{-n - 1, -1, 0, 1, n}
	}
	for _, i := range args {
		for _, j := range args {
			ops = append(ops, Op{K: "LRange", B: dsB, Key: key, I: i, J: j}, Op{K: "LTrim", B: dsB, Key: key, I: i, J: j})
		}
		for _, v := range vals {
			ops = append(ops, Op{K: "LRem", B: dsB, Key: key, I: i, Val: v}, Op{K: "LSet", B: dsB, Key: key, I: i, Val: v})
		}
	}
	return ops
}

func checkListState(c *CaseCtx, l *list.List, m *Model, ctx string) bool {
	got := qs(l.Items["k"])
	want := qs(m.L[dsB]["k"])
	if got != want {
		c.Violate("ds-list:state", "ds-list", fmt.Sprintf("%s: list holds %s, model %s", ctx, got, want))
		return false
	}
	return true
}

func listStep(c *CaseCtx, l *list.List, m *Model, o Op, ctx string) bool {
	exp := m.Expect(o, true)
	got := execListDS(l, o)
	c.Stat("api_calls_compared", 1)
	if ok, kind := exp.Accepts(got); !ok {
		sig := "ds-list:" + o.K + ":" + kind
		if got.Panic != "" {
			sig = "panic:ds-list:" + o.K + ":" + got.Panic
		}
		c.Violate(sig, "ds-list", fmt.Sprintf("%s: %s on %s returned %s, model allows %s", ctx, o.String(), qs(m.L[dsB]["k"]), got.String(), exp.String()))
		return false
	}
	m.Apply(o, got)
	return checkListState(c, l, m, ctx+" after "+o.String())
}

func listStates(maxLen int) [][][]byte {
	states := [][][]byte{{}}
	frontier := [][][]byte{{}}
	for n := 1; n <= maxLen; n++ {
		var next [][][]byte
		for _, s := range frontier {
			for _, v := range listAlpha {
				ns := append(append([][]byte{}, s...), v)
				next = append(next, ns)
			}
		}
		states = append(states, next...)
		frontier = next
	}
	return states
}

// dsListExhaustive: chunk `part` of `parts` of all (state, construction path, operation, argument).
func dsListExhaustive(c *CaseCtx, part, parts int) {
	states := listStates(4)
	for si, s := range states {
		if si%parts != part {
			continue
		}
		c.Stat("ds_states", 1)
		ops := listOpsFor(len(s), listAlpha, true)
		for path := 0; path < 3; path++ {
			for _, o := range ops {
				l := buildList(c.Rng, s, path)
				m := NewModel()
				m.L[dsB] = map[string][][]byte{"k": append([][]byte{}, s...)}
				if !checkListState(c, l, m, "construction") {
					return
				}
				if !listStep(c, l, m, o, fmt.Sprintf("state %s path %d", qs(s), path)) && c.Unexplained() >= 8 {
					return
				}
			}
		}
	}
	c.Log("ds-list exhaustive part %d/%d", part, parts)
	c.Nontrivial(true)
}

// dsListSequences: all sequences of length <= depth over a reduced operation alphabet (chunked by first op).
func dsListSequences(c *CaseCtx, part, parts, depth int) {
	vals := [][]byte{[]byte("a"), []byte("|")}
	var rec func(l *list.List, m *Model, d int, trace string) bool
	rec = func(l *list.List, m *Model, d int, trace string) bool {
		if d == 0 {
			return true
		}
		ops := listOpsFor(len(m.L[dsB]["k"]), vals, false)
		for oi, o := range ops {
			if d == depth && oi%parts != part {
				continue
			}
			// copy real and model
			l2 := list.New()
			if it, ok := l.Items["k"]; ok {
				l2.Items["k"] = append([][]byte{}, it...)
			}
			m2 := m.Clone()
			c.Stat("sequences_steps", 1)
			if !listStep(c, l2, m2, o, "sequence "+trace) {
				if c.Unexplained() >= 8 {
					return false
				}
				continue
			}
			if !rec(l2, m2, d-1, trace+" ; "+o.String()) {
				return false
			}
		}
		return true
	}
	rec(list.New(), NewModel(), depth, "")
	c.Log("ds-list sequences depth %d part %d/%d", depth, part, parts)
	c.Nontrivial(true)
}

func dsListRandom(c *CaseCtx, n, length int) {
	for i := 0; i < n; i++ {
		l := list.New()
		m := NewModel()
		trace := ""
		for j := 0; j < length; j++ {
			cur := len(m.L[dsB]["k"])
			if cur >= 2 && c.Rng.Intn(6) == 0 {
				// a range of the list itself is pushed back, exactly as LRange returned it (the slices an application gets
				// from the list may share memory with the list)
				a := c.Rng.Intn(cur)
				b := a + c.Rng.Intn(cur-a)
				vals, err := l.LRange("k", a, b)
				if err == nil && len(vals) > 0 {
					o := Op{K: []string{"LPush", "RPush"}[c.Rng.Intn(2)], B: dsB, Key: []byte("k")}
					for _, v := range vals {
						o.Vals = append(o.Vals, append([]byte{}, v...))
					}
					c.fp.add("self:" + o.String())
					var perr error
					p := ""
					func() {
						defer func() {
							if x := recover(); x != nil {
								p = panicClass(x)
							}
						}()
						if o.K == "LPush" {
							_, perr = l.LPush("k", vals...)
						} else {
							_, perr = l.RPush("k", vals...)
						}
					}()
					c.Stat("api_calls_compared", 1)
					c.Stat("own_ranges_pushed_back", 1)
					if p != "" || perr != nil {
						c.Violate("ds-list:"+o.K+":own-range", "ds-list", fmt.Sprintf("random %s: %s with the list's own LRange(%d,%d) result failed: %v %s", trace, o.K, a, b, perr, p))
						break
					}
					m.Apply(o, Res{})
					if !checkListState(c, l, m, "random "+trace+" after pushing the list's own LRange result: "+o.String()) {
						break
					}
					if len(trace) < 600 {
						trace += " ; self:" + o.String()
					}
					continue
				}
			}
			ops := listOpsFor(cur, listAlpha, false)
			o := ops[c.Rng.Intn(len(ops))]
			if c.Rng.Intn(3) == 0 {
				o = Op{K: "RPush", B: dsB, Key: []byte("k"), Vals: [][]byte{listAlpha[c.Rng.Intn(len(listAlpha))]}}
			}
			c.fp.add(o.String())
			if !listStep(c, l, m, o, "random "+trace) {
				break
			}
			if len(trace) < 600 {
				trace += " ; " + o.String()
			}
		}
		c.Stat("random_sequences", 1)
		if c.Unexplained() >= 8 {
			return
		}
	}
	c.Nontrivial(true)
}

// ---------------------------------------------------------------- set

func execSetDS(s *set.Set, o Op) (r Res) {
	defer recoverRes(&r)
	k := string(o.Key)
	switch o.K {
	case "SAdd":
		buf := make([][]byte, len(o.Vals), len(o.Vals)+3)
		copy(buf, o.Vals)
		err := s.SAdd(k, buf...)
		for i := range buf {
			buf[i] = []byte("\xee-overwritten-by-the-caller")
		}
		return okRes(err)
	case "SRem":
		return okRes(s.SRem(k, o.Vals...))
	case "SPop":
		return itemRes(s.SPop(k), nil)
	case "SCard":
		return intRes(s.SCard(k), nil)
	case "SHasKey":
		return boolRes(s.SHasKey(k), nil)
	case "SIsMember":
		return boolRes(s.SIsMember(k, o.Val), nil)
	case "SAreMembers":
		return boolRes(s.SAreMembers(k, o.Vals...))
	case "SMembers":
		return setRes(s.SMembers(k))
	case "SDiff1":
		return setRes(s.SDiff(k, string(o.Key2)))
	case "SUnion1":
		return setRes(s.SUnion(k, string(o.Key2)))
	case "SMove1":
		return boolRes(s.SMove(k, string(o.Key2), o.Val))
	}
	return Res{Err: true, ErrS: "harness: bad set op"}
}

var setAlpha = [][]byte{[]byte(""), []byte("a"), []byte("b")}
var setDSKeys = [][]byte{[]byte("k1"), []byte("k2")}

func setOps() []Op {
	var ops []Op
	for _, k := range setDSKeys {
		for _, v := range setAlpha {
			ops = append(ops, Op{K: "SAdd", B: dsB, Key: k, Vals: [][]byte{v}}, Op{K: "SRem", B: dsB, Key: k, Vals: [][]byte{v}},
				Op{K: "SIsMember", B: dsB, Key: k, Val: v})
			for _, k2 := range setDSKeys {
				ops = append(ops, Op{K: "SMove1", B: dsB, Key: k, Key2: k2, Val: v})
			}
			for _, v2 := range setAlpha {
				ops = append(ops, Op{K: "SAreMembers", B: dsB, Key: k, Vals: [][]byte{v, v2}})
			}
		}
		ops = append(ops, Op{K: "SAdd", B: dsB, Key: k, Vals: [][]byte{[]byte("a"), []byte("b")}},
			Op{K: "SRem", B: dsB, Key: k, Vals: [][]byte{[]byte("a"), []byte("")}},
			Op{K: "SPop", B: dsB, Key: k}, Op{K: "SCard", B: dsB, Key: k}, Op{K: "SHasKey", B: dsB, Key: k}, Op{K: "SMembers", B: dsB, Key: k})
		for _, k2 := range setDSKeys {
			ops = append(ops, Op{K: "SDiff1", B: dsB, Key: k, Key2: k2}, Op{K: "SUnion1", B: dsB, Key: k, Key2: k2})
		}
	}
	return ops
}

func setStateStr(s *set.Set) string {
	out := ""
	for _, k := range setDSKeys {
		m, ok := s.M[string(k)]
		if !ok {
			out += string(k) + ":-;"
			continue
		}
		mm := map[string]bool{}
		for x := range m {
			mm[x] = true
		}
		out += string(k) + ":" + setSorted(mm) + ";"
	}
	return out
}

func modelSetStateStr(m *Model, strictExist bool) string {
	out := ""
	for _, k := range setDSKeys {
		s, ok := m.S[dsB][string(k)]
		if !ok {
			out += string(k) + ":-;"
			continue
		}
		out += string(k) + ":" + setSorted(s) + ";"
	}
	return out
}

func setStep(c *CaseCtx, s *set.Set, m *Model, o Op, ctx string) bool {
	exp := m.Expect(o, true)
	if o.K == "SRem" {
		if _, ok := m.S[dsB][string(o.Key)]; !ok {
			exp.ErrOK = true // the exported type documents an error for a set that does not exist
		}
		if len(o.Vals) > 0 && len(o.Vals[0]) == 0 {
			exp.ErrOK = true // ... and for an empty first item (pinned by TestSet_SRem)
		}
	}
	before := modelSetStateStr(m, true)
	got := execSetDS(s, o)
	c.Stat("api_calls_compared", 1)
	if ok, kind := exp.Accepts(got); !ok {
		sig := "ds-set:" + o.K + ":" + kind
		if got.Panic != "" {
			sig = "panic:ds-set:" + o.K + ":" + got.Panic
		}
		c.Violate(sig, "ds-set", fmt.Sprintf("%s: %s on {%s} returned %s, model allows %s", ctx, o.String(), before, got.String(), exp.String()))
		return false
	}
	m.Apply(o, got)
	// state comparison: membership must agree; "exists but empty" and "absent" are the same observation
	for _, k := range setDSKeys {
		rm := map[string]bool{}
		for x := range s.M[string(k)] {
			rm[x] = true
		}
		if setSorted(rm) != setSorted(m.S[dsB][string(k)]) {
			c.Violate("ds-set:state:"+o.K, "ds-set", fmt.Sprintf("%s: after %s on {%s} the sets are {%s}, model {%s}", ctx, o.String(), before, setStateStr(s), modelSetStateStr(m, false)))
			return false
		}
	}
	return true
}

func cloneSet(s *set.Set) *set.Set {
	n := set.New()
	for k, m := range s.M {
		n.M[k] = map[string]struct{}{}
		for x := range m {
			n.M[k][x] = struct{}{}
		}
	}
	return n
}

// dsSetExhaustive explores every reachable state (BFS over the real type driven by the model) and every operation in it,
// then all operation sequences up to the given depth.
func dsSetExhaustive(c *CaseCtx, depth int) {
	ops := setOps()
	type st struct {
		s *set.Set
		m *Model
	}
	seen := map[string]bool{}
	start := st{set.New(), NewModel()}
	queue := []st{start}
	seen[modelSetStateStr(start.m, true)] = true
	for len(queue) > 0 {
		cur := queue[0]
		queue = queue[1:]
		c.Stat("ds_states", 1)
		for _, o := range ops {
			s2, m2 := cloneSet(cur.s), cur.m.Clone()
			if !setStep(c, s2, m2, o, "bfs") {
				if c.Unexplained() >= 8 {
					return
				}
				continue
			}
			key := modelSetStateStr(m2, true)
			if !seen[key] {
				seen[key] = true
				queue = append(queue, st{s2, m2})
			}
		}
	}
	var rec func(s *set.Set, m *Model, d int, trace string) bool
	rec = func(s *set.Set, m *Model, d int, trace string) bool {
		if d == 0 {
			return true
		}
		for _, o := range ops {
			if readOnlyKinds[o.K] && d != 1 {
				continue // reads do not change state; only needed as the last step
			}
			s2, m2 := cloneSet(s), m.Clone()
			c.Stat("sequences_steps", 1)
			if !setStep(c, s2, m2, o, "sequence "+trace) {
				if c.Unexplained() >= 8 {
					return false
				}
				continue
			}
			if !rec(s2, m2, d-1, trace+" ; "+o.String()) {
				return false
			}
		}
		return true
	}
	rec(set.New(), NewModel(), depth, "")
	c.Log("ds-set exhaustive depth %d", depth)
	c.Nontrivial(true)
}

// ---------------------------------------------------------------- sorted set

var zDSKeys = []string{"", "a", "b", "c"}
var zDSScores = []float64{-1, 0, 0.5, 1}

func zCheckNodes(ss *zset.SortedSet, ns []*zset.SortedSetNode) string {
	for _, n := range ns {
		if n == nil {
			return "nil node in result"
		}
		if ss.VerifIsHeader(n) {
			return "the internal header node was returned"
		}
	}
	return ""
}

func execZDS(ss *zset.SortedSet, o Op, preDict map[string]*zset.SortedSetNode) (r Res) {
	defer recoverRes(&r)
	var ns []*zset.SortedSetNode
	single := false
	switch o.K {
	case "ZAdd":
		return okRes(ss.Put(string(o.Key), zset.SCORE(o.F), o.Val))
	case "ZRem":
		ss.Remove(string(o.Key))
		return Res{}
	case "ZRemRangeByRank":
		ns = ss.GetByRankRange(o.I, o.J, true)
		for _, n := range ns {
			if n == nil || preDict[n.Key()] != n {
				return Res{V: "NON-MEMBER-RETURNED"}
			}
		}
		return Res{}
	case "ZRangeByRank":
		ns = ss.GetByRankRange(o.I, o.J, false)
	case "ZRangeByScore":
		ns = ss.GetByScoreRange(zset.SCORE(o.F), zset.SCORE(o.F2), zOpt(o))
	case "ZCount":
		return Res{V: strconv.Itoa(len(ss.GetByScoreRange(zset.SCORE(o.F), zset.SCORE(o.F2), zOpt(o))))}
	case "ZPopMax":
		ns, single = []*zset.SortedSetNode{ss.PopMax()}, true
	case "ZPopMin":
		ns, single = []*zset.SortedSetNode{ss.PopMin()}, true
	case "ZPeekMax":
		ns, single = []*zset.SortedSetNode{ss.PeekMax()}, true
	case "ZPeekMin":
		ns, single = []*zset.SortedSetNode{ss.PeekMin()}, true
	case "ZGetByKey":
		n := ss.GetByKey(string(o.Key))
		if n == nil {
			return Res{Err: true, ErrS: "nil"}
		}
		ns, single = []*zset.SortedSetNode{n}, true
	case "ZScore":
		n := ss.GetByKey(string(o.Key))
		if n == nil {
			return Res{Err: true, ErrS: "nil"}
		}
		return Res{V: fl(float64(n.Score()))}
	case "ZRank":
		return Res{V: strconv.Itoa(ss.FindRank(string(o.Key)))}
	case "ZRevRank":
		return Res{V: strconv.Itoa(ss.FindRevRank(string(o.Key)))}
	case "ZCard":
		return Res{V: strconv.Itoa(ss.Size())}
	case "ZGetByRank": // GetByRank(rank, remove=false): same as a one-element rank range
		n := ss.GetByRank(o.I, false)
		ns, single = []*zset.SortedSetNode{n}, true
	default:
		return Res{Err: true, ErrS: "harness: bad zset op"}
	}
	// identity: every returned node must be the member registered under its key
	for _, n := range ns {
		if n == nil {
			continue
		}
		if ss.VerifIsHeader(n) {
			return Res{V: "HEADER-NODE-RETURNED"}
		}
		if preDict[n.Key()] != n {
			return Res{V: "NON-MEMBER-RETURNED(" + strconv.Quote(n.Key()) + ")"}
		}
	}
	if single {
		return Res{V: zOne(znode(ns[0]))}
	}
	return Res{V: znodes(ns)}
}

func zOpsFor(n int, full bool, r *rand.Rand) []Op {
	var ops []Op
	for _, k := range zDSKeys {
		for _, s := range zDSScores {
			ops = append(ops, Op{K: "ZAdd", B: dsB, Key: []byte(k), F: s, Val: []byte("v")})
		}
		for _, kind := range []string{"ZRem", "ZRank", "ZRevRank", "ZScore", "ZGetByKey"} {
			ops = append(ops, Op{K: kind, B: dsB, Key: []byte(k)})
		}
	}
	for _, kind := range []string{"ZPopMax", "ZPopMin", "ZPeekMax", "ZPeekMin", "ZCard"} {
		ops = append(ops, Op{K: kind, B: dsB})
	}
	for i := -n - 2; i <= n+2; i++ {
		ops = append(ops, Op{K: "ZGetByRank", B: dsB, I: i})
		for j := -n - 2; j <= n+2; j++ {
			ops = append(ops, Op{K: "ZRangeByRank", B: dsB, I: i, J: j}, Op{K: "ZRemRangeByRank", B: dsB, I: i, J: j})
		}
	}
	ops = append(ops, Op{K: "ZRangeByRank", B: dsB, I: math.MinInt64, J: math.MaxInt64}, Op{K: "ZRangeByRank", B: dsB, I: math.MaxInt64, J: math.MinInt64})
	bounds := []float64{-2, -1, -0.5, 0, 0.25, 0.5, 1, 2}
	for _, a := range bounds {
		for _, b := range bounds {
			ops = append(ops, Op{K: "ZRangeByScore", B: dsB, F: a, F2: b}, Op{K: "ZCount", B: dsB, F: a, F2: b})
			for fl := 0; fl < 4; fl++ {
				lims := []int{0, 1, n, n + 1}
				if full {
					lims = nil
					for l := -1; l <= n+1; l++ {
						lims = append(lims, l)
					}
				}
				for _, l := range lims {
					ops = append(ops, Op{K: "ZRangeByScore", B: dsB, F: a, F2: b, HasOpt: true, Limit: l, ExS: fl&1 != 0, ExE: fl&2 != 0})
				}
			}
		}
	}
	return ops
}

// buildZ creates a sorted set holding exactly state (key -> score index or -1) using a random insertion history.
func buildZ(r *rand.Rand, state []int) (*zset.SortedSet, *Model) {
	ss := zset.New()
	m := NewModel()
	m.Z[dsB] = map[string]zItem{}
	perm := r.Perm(len(state))
	// noise: insert everything with random scores first, remove some, then settle
	if r.Intn(2) == 0 {
		for _, i := range perm {
			ss.Put(zDSKeys[i], zset.SCORE(zDSScores[r.Intn(len(zDSScores))]), []byte("n"))
		}
		for _, i := range r.Perm(len(state)) {
			if state[i] < 0 || r.Intn(2) == 0 {
				ss.Remove(zDSKeys[i])
			}
		}
	}
	for _, i := range perm {
		if state[i] >= 0 {
			ss.Put(zDSKeys[i], zset.SCORE(zDSScores[state[i]]), []byte("v"+zDSKeys[i]))
			m.Z[dsB][zDSKeys[i]] = zItem{zDSScores[state[i]], []byte("v" + zDSKeys[i])}
		}
	}
	return ss, m
}

func zStateStr(m *Model) string { return zStr(m.zsorted(dsB)) }

func zRealState(ss *zset.SortedSet) string {
	ns := ss.GetByRankRange(1, -1, false)
	if ss.Size() == 0 {
		ns = nil
	}
	return znodes(ns)
}

func zExpect(m *Model, o Op) Exp {
	if o.K == "ZGetByRank" {
		ns := m.zsorted(dsB)
		r := o.I
		if r < 0 {
			r = len(ns) + r + 1
		}
		// GetByRank goes through the clamped rank window: ranks <= 0 clamp to 1
		sel := zByRank(ns, o.I, o.I)
		if len(sel) == 1 {
			return Exp{V: zOne(&sel[0])}
		}
		return Exp{V: "nil"}
	}
	e := m.Expect(o, true)
	return e
}

func zStep(c *CaseCtx, ss *zset.SortedSet, m *Model, o Op, ctx string) bool {
	exp := zExpect(m, o)
	before := zStateStr(m)
	pre := map[string]*zset.SortedSetNode{}
	for k, n := range ss.Dict {
		pre[k] = n
	}
	got := execZDS(ss, o, pre)
	c.Stat("api_calls_compared", 1)
	if ok, kind := exp.Accepts(got); !ok {
		sig := "ds-zset:" + o.K + ":" + kind
		if got.Panic != "" {
			sig = "panic:ds-zset:" + o.K + ":" + got.Panic
		}
		if got.V == "HEADER-NODE-RETURNED" {
			sig = "ds-zset:" + o.K + ":header-node-returned"
		}
		c.Violate(sig, "ds-zset", fmt.Sprintf("%s: %s on %s returned %s, model allows %s", ctx, o.String(), before, got.String(), exp.String()))
		return false
	}
	if o.K != "ZGetByRank" {
		m.Apply(o, got)
	}
	if !readOnlyKinds[o.K] && o.K != "ZGetByRank" {
		if err := ss.VerifCheck(); err != nil {
			c.Violate("ds-zset:struct:"+o.K, "ds-zset", fmt.Sprintf("%s: skip list broken after %s on %s: %v", ctx, o.String(), before, err))
			return false
		}
		c.Stat("structure_walks", 1)
		if got, want := zRealState(ss), zStateStr(m); got != want {
			c.Violate("ds-zset:state:"+o.K, "ds-zset", fmt.Sprintf("%s: after %s on %s the set is %s, model %s", ctx, o.String(), before, got, want))
			return false
		}
	}
	return true
}

func dsZExhaustive(c *CaseCtx, part, parts, layouts int) {
	nk := len(zDSKeys)
	total := 1
	for i := 0; i < nk; i++ {
		total *= len(zDSScores) + 1
	}
	for code := 0; code < total; code++ {
		if code%parts != part {
			continue
		}
		state := make([]int, nk)
		x := code
		n := 0
		for i := 0; i < nk; i++ {
			state[i] = x%(len(zDSScores)+1) - 1
			x /= len(zDSScores) + 1
			if state[i] >= 0 {
				n++
			}
		}
		c.Stat("ds_states", 1)
		ops := zOpsFor(n, c.Tier == "thorough", c.Rng)
		for lay := 0; lay < layouts; lay++ {
			for _, o := range ops {
				if readOnlyKinds[o.K] || o.K == "ZGetByRank" {
					continue
				}
				ss, m := buildZ(c.Rng, state)
				if !zStep(c, ss, m, o, fmt.Sprintf("state#%d layout %d", code, lay)) && c.Unexplained() >= 8 {
					return
				}
			}
			// all read operations on one built instance (reads do not change it)
			ss, m := buildZ(c.Rng, state)
			if err := ss.VerifCheck(); err != nil {
				c.Violate("ds-zset:struct:build", "ds-zset", fmt.Sprintf("skip list broken after construction of %s: %v", zStateStr(m), err))
				return
			}
			for _, o := range ops {
				if readOnlyKinds[o.K] || o.K == "ZGetByRank" {
					if !zStep(c, ss, m, o, fmt.Sprintf("state#%d layout %d", code, lay)) && c.Unexplained() >= 8 {
						return
					}
				}
			}
		}
	}
	c.Log("ds-zset exhaustive part %d/%d layouts %d", part, parts, layouts)
	c.Nontrivial(true)
}

func dsZRandom(c *CaseCtx, n, length int) {
	for i := 0; i < n; i++ {
		ss := zset.New()
		m := NewModel()
		m.Z[dsB] = map[string]zItem{}
		trace := ""
		for j := 0; j < length; j++ {
			ops := zOpsFor(len(m.Z[dsB]), false, c.Rng)
			o := ops[c.Rng.Intn(len(ops))]
			if c.Rng.Intn(3) == 0 {
				o = Op{K: "ZAdd", B: dsB, Key: []byte(zDSKeys[c.Rng.Intn(len(zDSKeys))]), F: zDSScores[c.Rng.Intn(len(zDSScores))], Val: []byte("r")}
				if ns := m.zsorted(dsB); len(ns) > 0 && c.Rng.Intn(3) == 0 {
					// nudge an existing member's score (or put it a hair beside another member's)
					base := ns[c.Rng.Intn(len(ns))].S
					if base == 0 {
						base = 1
					}
					o.Key = []byte(ns[c.Rng.Intn(len(ns))].K)
					o.F = base * (1 + []float64{8e-10, -8e-10, 3e-13, 4e-16}[c.Rng.Intn(4)])
				}
			}
			c.fp.add(o.String())
			if !zStep(c, ss, m, o, "random "+trace) {
				break
			}
			if len(trace) < 600 {
				trace += " ; " + o.String()
			}
		}
		c.Stat("random_sequences", 1)
		if c.Unexplained() >= 8 {
			return
		}
	}
	c.Nontrivial(true)
}

// ===================================================================== through transactions

// dsTxHistory: one data-structure operation per write transaction (so the outcome never depends on
// how a transaction sees its own writes), KeyVal mode, small segments, reads and full observation after
// every commit, reopen in the middle and at the end.
func dsTxHistory(c *CaseCtx, kind string, class string) {
	r := c.Rng
	cfg := randCfg(r, []int{0}, 128, 700)
	u := defaultUniverse(r, 2, 4, true)
	run := NewRunner(c, cfg, u, class)
	c.Log("cfg %s buckets=%v", cfg, u.Buckets)
	if !run.Open() {
		return
	}
	defer run.Close()
	if c.Case%4 == 2 {
		// the handle has completed a Merge before the structure exists (lists included: no list record is in the log
		// when the Merge runs, so the recorded list/Merge finding does not apply)
		if preMergeHandle(c, run.DB, cfg) {
			run.Class += "-after-merge"
			class = run.Class
		}
	}
	g := &Gen{R: r, U: u, Cfg: cfg, List: kind == "list", Set: kind == "set", ZSet: kind == "zset", MaxOps: 1}
	ntx := 30 + r.Intn(tier(c.Tier, 50, 120))
	muts := map[string]bool{}
	for i := 0; i < ntx && !run.Dead && !c.Violated(); i++ {
		g.M = run.M
		t := g.WriteTx(true)
		if r.Intn(6) == 0 { // multi-op, blind only
			g.MaxOps = 3
			t = g.WriteTx(true)
			g.MaxOps = 1
		}
		out := run.Tx(t, false)
		if out.Committed {
			for _, o := range t.Ops {
				muts[o.K] = true
			}
		}
		g.M = run.M
		run.CheckObs("after-commit")
		run.Tx(g.ReadTx(6), false)
		if r.Intn(4) == 0 && !run.Dead && !c.Violated() {
			// several operations of this structure in ONE transaction, judged against the sequential model and the
			// executable model of the recorded committed-view finding (C13): only a deviation that neither model
			// reproduces is a violation here; half of them come from templates in which a later operation depends
			// on what an earlier one of the same transaction did
			g.M = run.M
			var t2 TxSpec
			if tpl := dsTemplate(g, kind); tpl != nil && r.Intn(2) == 0 {
				t2 = TxSpec{Mode: "update", Ops: tpl}
				c.Stat("multi_op_templates", 1)
			} else {
				g.MaxOps = 4
				t2 = g.WriteTx(false)
				g.MaxOps = 1
			}
			c.Stat("multi_op_transactions", 1)
			if _, fatal := twoModelTx(run, t2, class, false); fatal {
				break
			}
			g.M = run.M
		}
		if r.Intn(5) == 0 {
			// the same kind of operation in a transaction that does not commit (fn error, Rollback, or a read-only
			// transaction, where every mutator must be refused): the structure must be exactly as before
			t2 := g.WriteTx(true)
			t2.Mode = []string{"fnerr", "rollback", "view"}[r.Intn(3)]
			run.Tx(t2, false)
			c.Stat("noncommitting_transactions", 1)
			run.CheckObs("after-noncommitting-" + t2.Mode)
		}
		if kind == "zset" {
			run.CheckStruct("after-commit")
		}
		if r.Intn(20) == 0 {
			if c.Case%8 == 5 {
				if !run.ReopenResized(r, 128, 700, g) {
					return
				}
			} else if !run.Reopen() {
				return
			}
			run.CheckObs("after-reopen")
		}
		if kind != "list" && r.Intn(15) == 0 && run.Files() >= 2 {
			// sets and sorted sets survive a (sequential) Merge unchanged, in the process and after a reopen; the same
			// keys and members are used in both buckets (lists: recorded finding of C15)
			c.Log("merge (%d files)", run.Files())
			if merr, p := mergeNoPanic(run); p != "" {
				c.Violate("panic:Merge:"+p, class, "Merge panicked: "+p)
				return
			} else if merr == nil {
				c.Stat("merges_succeeded", 1)
			}
			if !run.CheckObs("after-merge") || !run.Reopen() || !run.CheckObs("after-merge-reopen") {
				return
			}
		}
	}
	if run.Dead || c.Violated() {
		return
	}
	if run.Reopen() {
		g.M = run.M
		run.CheckObs("after-final-reopen")
		run.Tx(g.ReadTx(10), false)
	}
	var ks []string
	for k := range muts {
		ks = append(ks, k)
	}
	sort.Strings(ks)
	c.Stat("tx_histories", 1)
	c.Nontrivial(len(ks) >= 4 && run.Files() >= 2)
	if c.Case%50 == 0 {
		c.Sample(map[string]interface{}{"config": cfg.String(), "mutators_used": ks, "transactions": run.NTx, "first_steps": firstLines(c.hist, 5)})
	}
}

// dsTemplate builds a multi-operation transaction for one structure kind in which a later operation depends on
// an earlier one of the same transaction.
func dsTemplate(g *Gen, kind string) []Op {
	r, b := g.R, g.bucket()
	switch kind {
	case "list":
		key := g.pick(g.U.ListKeys)
		l := g.M.L[b][string(key)]
		g.ctr++
		v := []byte("t" + strconv.Itoa(g.ctr)) // a value the committed list does not hold
		push := Op{K: []string{"RPush", "LPush"}[r.Intn(2)], B: b, Key: key, Vals: [][]byte{v}}
		switch r.Intn(4) {
		case 0: // push a new value, then remove it again
			cnt := []int{0, 1, -1}[r.Intn(3)]
			ops := []Op{push}
			if r.Intn(2) == 0 {
				ops = append(ops, Op{K: []string{"RPush", "LPush"}[r.Intn(2)], B: b, Key: key, Vals: [][]byte{v}})
			}
			return append(ops, Op{K: "LRem", B: b, Key: key, I: cnt, Val: v})
		case 1: // push, then overwrite the pushed slot
			if push.K == "RPush" {
				return []Op{push, {K: "LSet", B: b, Key: key, I: len(l), Val: []byte("set")}}
			}
			return []Op{push, {K: "LSet", B: b, Key: key, I: 0, Val: []byte("set")}}
		case 2: // push, then trim to exactly the old extent
			if len(l) == 0 {
				return nil
			}
			if push.K == "RPush" {
				return []Op{push, {K: "LTrim", B: b, Key: key, I: 0, J: len(l) - 1}}
			}
			return []Op{push, {K: "LTrim", B: b, Key: key, I: 1, J: len(l)}}
		default: // pop then push the popped element back at the other end
			if len(l) == 0 {
				return nil
			}
			return []Op{{K: "LPop", B: b, Key: key}, {K: "RPush", B: b, Key: key, Vals: [][]byte{l[0]}}}
		}
	case "set":
		// a member held by two sets: remove it from one, then move it there from the other
		type loc struct{ b, k string }
		where := map[string][]loc{}
		for _, bb := range g.U.Buckets {
			for _, k := range g.U.SetKeys {
				for m := range g.M.S[bb][string(k)] {
					where[m] = append(where[m], loc{bb, string(k)})
				}
			}
		}
		var ms []string
		for m, ls := range where {
			if len(ls) >= 2 {
				ms = append(ms, m)
			}
		}
		sort.Strings(ms)
		if len(ms) == 0 {
			// make one: add the same member to two sets (committed by this transaction)
			m := g.member()
			return []Op{{K: "SAdd", B: g.U.Buckets[0], Key: g.U.SetKeys[0], Vals: [][]byte{m}}, {K: "SAdd", B: g.U.Buckets[len(g.U.Buckets)-1], Key: g.U.SetKeys[1], Vals: [][]byte{m}}}
		}
		m := ms[r.Intn(len(ms))]
		ls := where[m]
		sort.Slice(ls, func(i, j int) bool { return ls[i].b+"/"+ls[i].k < ls[j].b+"/"+ls[j].k })
		src, dst := ls[0], ls[1]
		if r.Intn(2) == 0 {
			src, dst = dst, src
		}
		first := Op{K: "SRem", B: dst.b, Key: []byte(dst.k), Vals: [][]byte{[]byte(m)}}
		mv := Op{K: "SMove2", B: src.b, Key: []byte(src.k), B2: dst.b, Key2: []byte(dst.k), Val: []byte(m)}
		if src.b == dst.b {
			mv = Op{K: "SMove1", B: src.b, Key: []byte(src.k), Key2: []byte(dst.k), Val: []byte(m)}
		}
		return []Op{first, mv}
	case "zset":
		ns := g.M.zsorted(b)
		if len(ns) == 0 {
			return nil
		}
		x := ns[r.Intn(len(ns))]
		back := Op{K: "ZAdd", B: b, Key: []byte(x.K), F: x.S, Val: x.V} // exactly the committed score and value
		switch r.Intn(3) {
		case 0:
			return []Op{{K: "ZAdd", B: b, Key: []byte(x.K), F: x.S + 7, Val: []byte("tmp")}, back}
		case 1:
			return []Op{{K: "ZRem", B: b, Key: []byte(x.K)}, back}
		default:
			first := ns[0]
			return []Op{{K: "ZPopMin", B: b}, {K: "ZAdd", B: b, Key: []byte(first.K), F: first.S, Val: first.V}}
		}
	}
	return nil
}

// ===================================================================== registration

func init() {
	register(&Check{
		ID: "C05", Level: "exploration",
		NCases: func(t string) int { return 16 + 16 + tier(t, 16, 64) + tier(t, 120, 1500) },
		Run: func(c *CaseCtx) {
			nRand := tier(c.Tier, 16, 64)
			switch {
			case c.Case < 16:
				dsListExhaustive(c, c.Case, 16)
			case c.Case < 32:
				dsListSequences(c, c.Case-16, 16, tier(c.Tier, 3, 4))
			case c.Case < 32+nRand:
				dsListRandom(c, tier(c.Tier, 300, 3000), 30)
			case slot(c, 16) == 9:
				largeHistory(c, "tx-list", largeOpts{Kind: "list", Modes: []int{0}})
			default:
				dsTxHistory(c, "list", "tx-list")
			}
		},
		Rule: "[also: layer (a) pushes the list's own LRange results back; layer (b): 1 case in 16 is a large-geometry history (segments of 9-330 KB: >1000 live records in one segment, or values of 1-69 KB around the 4 KiB and 64 KiB marks and with whole pages of zero bytes; Merge and reopen twice, compared with the model); a quarter of the histories run on a handle that completed a Merge before any list existed] layer (a), exported ds/list.List: every model state (lists of length<=4 over {a,b,'',|,a|b}) x 3 construction paths x every operation x every argument (indexes/counts -n-2..n+1 and MinInt64/MaxInt64/+-2^31), plus all operation sequences of bounded depth over a reduced alphabet, plus random sequences of length 30; " +
			"layer (b): one list operation per write transaction through the public Tx API (KeyVal mode, small segments), full observation after every commit, reopen; results and resulting list compared with a Redis-style model that accepts the documented error-instead-of-clamp choices; " +
			"non-trivial = chunk explored or history used >=4 distinct mutators and rotated a segment; distinct by operation-sequence hash",
		Assumptions: []string{"Redis list semantics as the model, with either-result tolerance where nutsdb documents an error (negative LSet index, |count|>size for LRem, empty LRange/LTrim result)"},
		Floor: func(t string, a map[string]int64) string {
			if a["ds_states"] < 781 || a["tx_histories"] == 0 {
				return fmt.Sprintf("only %d of 781 list states / %d tx histories", a["ds_states"], a["tx_histories"])
			}
			return ""
		},
	})
	register(&Check{
		ID: "C06", Level: "exploration",
		NCases: func(t string) int { return 1 + tier(t, 150, 1500) },
		Run: func(c *CaseCtx) {
			if c.Case == 0 {
				dsSetExhaustive(c, tier(c.Tier, 3, 4))
				return
			}
			if slot(c, 16) == 9 {
				largeHistory(c, "tx-set", largeOpts{Kind: "set", Modes: []int{0}, Merge: true})
				return
			}
			dsTxHistory(c, "set", "tx-set")
		},
		Rule: "[also: 1 case in 16 is a large-geometry history (segments of 9-330 KB: >1000 live records in one segment, or values of 1-69 KB around the 4 KiB and 64 KiB marks and with whole pages of zero bytes; Merge and reopen twice, compared with the model); a quarter of the histories run on a handle that completed a Merge before the history] layer (a), exported ds/set.Set: BFS over every reachable state of two keys x members {'',a,b} with every operation and argument in every state, plus all operation sequences of bounded depth; " +
			"layer (b): one set operation per write transaction (SAdd/SRem/SPop/SMoveByOneBucket/SMoveByTwoBuckets) with all reads compared after each commit, reopen in the middle and at the end (SMove durability); non-trivial as in C05",
		Assumptions: []string{"mathematical-set model; SMove of a non-member is 'false, no change' (Redis) and may also be reported as an error"},
		Floor: func(t string, a map[string]int64) string {
			if a["ds_states"] < 81 || a["tx_histories"] == 0 {
				return fmt.Sprintf("only %d of 81 set states / %d tx histories", a["ds_states"], a["tx_histories"])
			}
			return ""
		},
	})
	register(&Check{
		ID: "C07", Level: "exploration",
		NCases: func(t string) int { return 25 + tier(t, 8, 64) + tier(t, 120, 1200) },
		Run: func(c *CaseCtx) {
			nRand := tier(c.Tier, 8, 64)
			switch {
			case c.Case < 25:
				dsZExhaustive(c, c.Case, 25, tier(c.Tier, 2, 24))
			case c.Case < 25+nRand:
				dsZRandom(c, tier(c.Tier, 150, 2000), 40)
			case slot(c, 16) == 9:
				largeHistory(c, "tx-zset", largeOpts{Kind: "zset", Modes: []int{0}, Merge: true})
			default:
				dsTxHistory(c, "zset", "tx-zset")
			}
		},
		Rule: "[also: 1 case in 16 is a large-geometry history (segments of 9-330 KB: >1000 live records in one segment, or values of 1-69 KB around the 4 KiB and 64 KiB marks and with whole pages of zero bytes; Merge and reopen twice, compared with the model); a quarter of the histories run on a handle that completed a Merge before the history] layer (a), exported ds/zset.SortedSet: all 625 states of member keys {'',a,b,c} x scores {-1,0,0.5,1} (many ties), each built with several random skip-list layouts, x every operation x every argument (rank bounds -n-2..n+2 both orders, score bounds below min..above max both orders x exclusive flags x limits); skip-list structural walker and full-membership comparison after every mutation; every returned node must be the registered member (never the header); plus random sequences; " +
			"layer (b): one sorted-set mutation per transaction with all 13 read APIs compared after each commit, reopen",
		Assumptions: []string{"order is (score, key); ranks are 1-based, negative ranks count from the end, out-of-range ranks are clamped, as documented on GetByRankRange"},
		Floor: func(t string, a map[string]int64) string {
			if a["ds_states"] < 625 || a["tx_histories"] == 0 {
				return fmt.Sprintf("only %d of 625 zset states / %d tx histories", a["ds_states"], a["tx_histories"])
			}
			return ""
		},
	})
}
