package main

import (
	"fmt"
	"math"
	"math/rand"
	"strconv"

	"github.com/xujiajun/nutsdb"
)

// Cfg is one storage configuration.
type Cfg struct {
	Mode    int   `json:"mode"` // 0 KeyVal+RAM, 1 Key+RAM, 2 sparse
	RW      int   `json:"rw"`   // 0 FileIO, 1 MMap
	StartRW int   `json:"startrw"`
	Seg     int64 `json:"seg"`
	Sync    bool  `json:"sync"`
	Node    int64 `json:"node,omitempty"` // Options.NodeNum (0 => 1)
}

func (c Cfg) Options(dir string) nutsdb.Options {
	node := c.Node
	if node == 0 {
		node = 1
	}
	return nutsdb.Options{
		Dir: dir, EntryIdxMode: nutsdb.EntryIdxMode(c.Mode), RWMode: nutsdb.RWMode(c.RW),
		StartFileLoadingMode: nutsdb.RWMode(c.StartRW), SegmentSize: c.Seg, NodeNum: node, SyncEnable: c.Sync,
	}
}

func (c Cfg) String() string {
	m := []string{"KeyVal", "KeyOnly", "Sparse"}[c.Mode]
	rw := []string{"FileIO", "MMap"}
	return fmt.Sprintf("%s/%s/start=%s/seg=%d/sync=%v", m, rw[c.RW], rw[c.StartRW], c.Seg, c.Sync)
}

func randCfg(r *rand.Rand, modes []int, segLo, segHi int64) Cfg {
	return Cfg{Mode: modes[r.Intn(len(modes))], RW: r.Intn(2), StartRW: r.Intn(2),
		Seg: segLo + r.Int63n(segHi-segLo+1), Sync: r.Intn(2) == 0}
}

// Gen produces operations from seeded choices, aware of the current model state.
type Gen struct {
	R   *rand.Rand
	U   *Universe
	Cfg Cfg
	M   *Model // committed state (read only here)
	ctr int

	// knobs
	KV, List, Set, ZSet bool
	TTL                 bool // produce PutWithTimestamp / TTL variety
	MaxOps              int  // per transaction
	BigVals             bool // values that nearly fill a segment
	NoSMove             bool
	NoEmptyMember       bool // never use "" as a set member / zset key
	AllowBadArgs        bool // keys with separators, empty keys (must fail cleanly)
	NoZPop              bool // sorted sets: ZAdd / ZRem only (no positional removals)
}

var bucketPool = []string{"b1", "b2", "bk", "b", "x", "b.k"} // ("b.k": sparse mode derives file names from bucket names)

var adversarialBuckets = []string{"a", "ab", "abc", "b", "a|", "k", "ka"}

func mkKVKeys(r *rand.Rand, n int) [][]byte {
	base := []string{"a", "a\x00", "aa", "ab", "ab\x00", "abc", "b", "ba", "\xff", "\xff\xff", "k", "k0", "\x01",
		// two long keys. Their bytes are small on purpose (as are the filler bytes of long values below): after a torn or
		// failed write, bytes of a key or value can end up where the reader expects a record header, and nutsdb
		// allocates whatever the size fields say before it checks anything - text bytes there mean 1-2 GiB per read
		"k\x01\x02\x01\x02\x01\x02\x01\x02\x01\x02\x01\x02\x01\x02\x01\x02\x01\x02\x01\x02\x01\x02\x01\x02\x01\x02\x01\x02\x01\x02\x01\x02\x01\x02\x01\x02\x01\x02\x01\x02\x01\x02\x01\x02\x01\x02\x01\x02",
		"\xff\x01\x01\x02\x01\x01\x02\x01\x01\x02\x01\x01\x02\x01\x01\x02\x01\x01\x02\x01\x01\x02\x01\x01\x02\x01\x01\x02\x01\x01\x02\x01\x01\x02\x01\x01\x02\x01\x01\x02\x01\x01\x02\x01\x01"}
	seen := map[string]bool{}
	var out [][]byte
	add := func(s string) {
		if s != "" && !seen[s] && len(out) < n {
			seen[s] = true
			out = append(out, []byte(s))
		}
	}
	perm := r.Perm(len(base))
	for _, i := range perm {
		if len(out) >= n || len(out) >= 8 {
			break
		}
		add(base[i])
	}
	prefixes := []string{"a", "ab", "k", "key", "b", "\xff"}
	for len(out) < n {
		p := prefixes[r.Intn(len(prefixes))]
		switch r.Intn(3) {
		case 0:
			add(p + strconv.Itoa(r.Intn(100)))
		case 1:
			add(p + string([]byte{byte(r.Intn(256))}))
		default:
			add(p + fmt.Sprintf("%03d", r.Intn(1000)))
		}
	}
	return out
}

func defaultUniverse(r *rand.Rand, nBuckets, nKeys int, ds bool) *Universe {
	u := &Universe{DS: ds}
	perm := r.Perm(len(bucketPool))
	for i := 0; i < nBuckets; i++ {
		u.Buckets = append(u.Buckets, bucketPool[perm[i]])
	}
	u.KVKeys = mkKVKeys(r, nKeys)
	u.ListKeys = [][]byte{[]byte("l1"), []byte("l2")}
	u.SetKeys = [][]byte{[]byte("s1"), []byte("s2")}
	if nBuckets >= 2 && r.Intn(3) == 0 {
		// names whose plain concatenations coincide: bucket+key ("b"+"ka" == "bk"+"a", "b"+"kl1" == "bk"+"l1",
		// "b"+"ks1" == "bk"+"s1"), key+member inside one bucket ("s1"+"2a" == "s12"+"a"; the member pools hold "2a" and
		// "a") and bucket+member of sorted sets ("b"+"ka" == "bk"+"a"; the key pool holds both). Anything that
		// identifies a record by such a concatenation confuses two different records.
		u.Buckets[0], u.Buckets[1] = "b", "bk"
		for i := 2; i < len(u.Buckets); i++ {
			if u.Buckets[i] == "b" || u.Buckets[i] == "bk" {
				u.Buckets[i] = "b2"
			}
		}
		has := map[string]bool{}
		for _, k := range u.KVKeys {
			has[string(k)] = true
		}
		for _, k := range []string{"ka", "a"} {
			if !has[k] {
				u.KVKeys = append(u.KVKeys, []byte(k))
			}
		}
		u.ListKeys = [][]byte{[]byte("l1"), []byte("kl1"), []byte("l2")}
		u.SetKeys = [][]byte{[]byte("s1"), []byte("ks1"), []byte("s12")}
	}
	return u
}

func (g *Gen) bucket() string { return g.U.Buckets[g.R.Intn(len(g.U.Buckets))] }

func (g *Gen) pick(bs [][]byte) []byte { return bs[g.R.Intn(len(bs))] }

// maxPayload returns how many value bytes still fit into one segment.
func (g *Gen) maxPayload(bucket string, keyLen int) int {
	n := int(g.Cfg.Seg) - 42 - len(bucket) - keyLen
	if n < 0 {
		n = 0
	}
	return n
}

func (g *Gen) value(bucket string, keyLen int) []byte {
	g.ctr++
	max := g.maxPayload(bucket, keyLen)
	tag := "v" + strconv.Itoa(g.ctr)
	var v []byte
	switch x := g.R.Intn(10); {
	case x == 0:
		v = nil
	case x <= 6:
		v = []byte(tag)
	case x <= 8 || !g.BigVals:
		v = []byte(tag + "-" + string(make([]byte, g.R.Intn(24))))
		for i := len(tag) + 1; i < len(v); i++ {
			v[i] = byte(1 + g.R.Intn(3))
		}
	default:
		n := max - g.R.Intn(4)
		if n < len(tag) {
			n = len(tag)
		}
		v = make([]byte, n)
		copy(v, tag)
		for i := len(tag); i < n; i++ {
			v[i] = 1
		}
	}
	if len(v) > max {
		v = v[:max]
	}
	return v
}

func (g *Gen) liveKeys(b string) [][]byte {
	var out [][]byte
	for _, k := range g.U.KVKeys {
		if it := g.M.KV[b][string(k)]; it.live() {
			out = append(out, k)
		}
	}
	return out
}

func (g *Gen) kvWrite() Op {
	b := g.bucket()
	var key []byte
	if lk := g.liveKeys(b); len(lk) > 0 && g.R.Intn(3) == 0 {
		key = g.pick(lk)
	} else {
		key = g.pick(g.U.KVKeys)
	}
	x := g.R.Intn(100)
	switch {
	case x < 25:
		return Op{K: "Delete", B: b, Key: key}
	case x < 45 && g.TTL:
		now := modelNow()
		o := Op{K: "PutTS", B: b, Key: key, Val: g.value(b, len(key))}
		switch g.R.Intn(6) {
		case 0: // expired long ago
			o.TS, o.TTL = now-3000000, 1000000
		case 1: // live, expires far in the future
			o.TS, o.TTL = now-1000000, 4000000
		case 2: // timestamp in the future
			o.TS, o.TTL = now+10000000, 1
		case 3: // persistent with ancient timestamp
			o.TS, o.TTL = 0, 0
		case 4: // ancient and expiring => expired
			o.TS, o.TTL = 1, 1
		default: // max TTL, still expired
			o.TS, o.TTL = 5, math.MaxUint32
		}
		return o
	case x < 55 && g.TTL:
		return Op{K: "Put", B: b, Key: key, Val: g.value(b, len(key)), TTL: uint32(1000000 + g.R.Intn(1000000))}
	default:
		return Op{K: "Put", B: b, Key: key, Val: g.value(b, len(key))}
	}
}

var listVals = []string{"a", "b", "", "|", "a|b", "c"}

func (g *Gen) listVal() []byte {
	if g.R.Intn(3) == 0 {
		g.ctr++
		return []byte("e" + strconv.Itoa(g.ctr))
	}
	return []byte(listVals[g.R.Intn(len(listVals))])
}

func (g *Gen) idx(n int) int { return g.R.Intn(n+4) - n - 2 } // -n-2 .. n+1

func (g *Gen) listWrite(blindOnly bool) Op {
	b := g.bucket()
	key := g.pick(g.U.ListKeys)
	n := len(g.M.L[b][string(key)])
	x := g.R.Intn(100)
	if blindOnly || x < 50 || n == 0 && x < 85 {
		k := "RPush"
		if g.R.Intn(2) == 0 {
			k = "LPush"
		}
		nv := 1 + g.R.Intn(3)
		var vals [][]byte
		for i := 0; i < nv; i++ {
			vals = append(vals, g.listVal())
		}
		return Op{K: k, B: b, Key: key, Vals: vals}
	}
	switch {
	case x < 62:
		return Op{K: "LPop", B: b, Key: key}
	case x < 72:
		return Op{K: "RPop", B: b, Key: key}
	case x < 82:
		var v []byte
		if n > 0 && g.R.Intn(4) != 0 {
			v = g.M.L[b][string(key)][g.R.Intn(n)]
		} else {
			v = g.listVal()
		}
		return Op{K: "LRem", B: b, Key: key, I: g.idx(n), Val: v}
	case x < 91:
		return Op{K: "LSet", B: b, Key: key, I: g.idx(n), Val: g.listVal()}
	default:
		return Op{K: "LTrim", B: b, Key: key, I: g.idx(n), J: g.idx(n)}
	}
}

var setMembers = []string{"a", "b", "c", "", "a|b", "m1", "m2", "2a"}

func (g *Gen) member() []byte {
	for {
		m := setMembers[g.R.Intn(len(setMembers))]
		if m == "" && g.NoEmptyMember {
			continue
		}
		return []byte(m)
	}
}

func (g *Gen) setWrite(blindOnly bool) Op {
	b := g.bucket()
	key := g.pick(g.U.SetKeys)
	x := g.R.Intn(100)
	if blindOnly && x >= 75 {
		x = g.R.Intn(75)
	}
	switch {
	case x < 50:
		nv := 1 + g.R.Intn(3)
		var vals [][]byte
		for i := 0; i < nv; i++ {
			vals = append(vals, g.member())
		}
		return Op{K: "SAdd", B: b, Key: key, Vals: vals}
	case x < 75:
		nv := 1 + g.R.Intn(2)
		var vals [][]byte
		for i := 0; i < nv; i++ {
			vals = append(vals, g.member())
		}
		return Op{K: "SRem", B: b, Key: key, Vals: vals}
	case x < 90 || g.NoSMove:
		return Op{K: "SPop", B: b, Key: key}
	case x < 95:
		return Op{K: "SMove1", B: b, Key: key, Key2: g.pick(g.U.SetKeys), Val: g.member()}
	default:
		return Op{K: "SMove2", B: b, Key: key, B2: g.bucket(), Key2: g.pick(g.U.SetKeys), Val: g.member()}
	}
}

var zKeys = []string{"", "a", "b", "c", "d", "e", "f", "g", "h", "z1", "z2", "z3", "ka"}
var zScores = []float64{-1, 0, 0.5, 1, 1, 2, -0.25, 1000, 0, 0.00002, -3e-7, 4e21, 1e21}

func (g *Gen) zKey() []byte {
	for {
		k := zKeys[g.R.Intn(len(zKeys))]
		if k == "" && g.NoEmptyMember {
			continue
		}
		return []byte(k)
	}
}

func (g *Gen) zWrite(blindOnly bool) Op {
	b := g.bucket()
	n := len(g.M.Z[b])
	x := g.R.Intn(100)
	if blindOnly || x < 55 || n == 0 && x < 85 {
		g.ctr++
		if n >= 2 && g.R.Intn(4) == 0 {
			// move an existing member onto the score of another one (ties are broken by key: the member may have to
			// change places with its neighbour although its score stays within the neighbours' range)
			ns := g.M.zsorted(b)
			i, j := g.R.Intn(n), g.R.Intn(n)
			if g.R.Intn(3) == 0 {
				// ... or by a hair: a new score that agrees with the old one (or with another member's) to nine or
				// more significant digits is still a different score
				base := ns[j].S
				if base == 0 {
					base = 1
				}
				return Op{K: "ZAdd", B: b, Key: []byte(ns[i].K), F: base * (1 + []float64{8e-10, -8e-10, 3e-13, 2e-16 * 2}[g.R.Intn(4)]), Val: []byte("z" + strconv.Itoa(g.ctr))}
			}
			return Op{K: "ZAdd", B: b, Key: []byte(ns[i].K), F: ns[j].S, Val: []byte("z" + strconv.Itoa(g.ctr))}
		}
		return Op{K: "ZAdd", B: b, Key: g.zKey(), F: zScores[g.R.Intn(len(zScores))], Val: []byte("z" + strconv.Itoa(g.ctr))}
	}
	switch {
	case x < 70 || g.NoZPop:
		return Op{K: "ZRem", B: b, Key: g.zKey()}
	case x < 80:
		return Op{K: "ZRemRangeByRank", B: b, I: g.R.Intn(2*n+5) - n - 2, J: g.R.Intn(2*n+5) - n - 2}
	case x < 90:
		return Op{K: "ZPopMax", B: b}
	default:
		return Op{K: "ZPopMin", B: b}
	}
}

func structID(o Op) []string {
	switch dsOf(o.K) {
	case "kv":
		return []string{"kv:" + o.B}
	case "list":
		return []string{"list:" + o.B + ":" + string(o.Key)}
	case "set":
		ids := []string{"set:" + o.B + ":" + string(o.Key)}
		switch o.K {
		case "SMove1", "SDiff1", "SUnion1":
			ids = append(ids, "set:"+o.B+":"+string(o.Key2))
		case "SMove2", "SDiff2", "SUnion2":
			ids = append(ids, "set:"+o.B2+":"+string(o.Key2))
		}
		return ids
	case "zset":
		return []string{"zset:" + o.B}
	}
	return nil
}

// WriteTx generates a write transaction. With clean == true the transaction is
// "C13-clean": an operation whose result or acceptance depends on the state never
// follows another operation on the same structure inside the transaction.
func (g *Gen) WriteTx(clean bool) TxSpec {
	nops := 1 + g.R.Intn(g.MaxOps)
	var kinds []string
	if g.KV {
		kinds = append(kinds, "kv", "kv")
	}
	if g.List {
		kinds = append(kinds, "list")
	}
	if g.Set {
		kinds = append(kinds, "set")
	}
	if g.ZSet {
		kinds = append(kinds, "zset")
	}
	touched := map[string]bool{}
	t := TxSpec{Mode: "update"}
	for len(t.Ops) < nops {
		var o Op
		for try := 0; ; try++ {
			blind := clean && try > 2
			switch kinds[g.R.Intn(len(kinds))] {
			case "kv":
				o = g.kvWrite()
			case "list":
				o = g.listWrite(blind)
			case "set":
				o = g.setWrite(blind)
			case "zset":
				o = g.zWrite(blind)
			}
			if !clean || blindKinds[o.K] {
				break
			}
			conflict := false
			for _, id := range structID(o) {
				if touched[id] {
					conflict = true
				}
			}
			if !conflict {
				break
			}
		}
		for _, id := range structID(o) {
			touched[id] = true
		}
		t.Ops = append(t.Ops, o)
	}
	return t
}

// BulkKVTx generates one write transaction whose records fill about segs segments: every key of the universe once
// (in random order), then random key/value writes.
func (g *Gen) BulkKVTx(segs int) TxSpec {
	t := TxSpec{Mode: "update"}
	b := g.bucket()
	perm := g.R.Perm(len(g.U.KVKeys))
	if g.R.Intn(2) == 0 && len(perm) > 6 {
		// only half of the keys: the others keep their newest version where earlier, small transactions put it
		perm = perm[:len(perm)/2]
	}
	for need, i := int(g.Cfg.Seg)*segs, 0; need > 0 && len(t.Ops) <= 240; i++ {
		var o Op
		if i < len(perm) {
			k := g.U.KVKeys[perm[i]]
			o = Op{K: "Put", B: b, Key: k, Val: g.value(b, len(k))}
		} else {
			k := g.U.KVKeys[perm[g.R.Intn(len(perm))]]
			o = Op{K: "Put", B: b, Key: k, Val: g.value(b, len(k))}
		}
		t.Ops = append(t.Ops, o)
		need -= 42 + len(o.B) + len(o.Key) + len(o.Val)
	}
	return t
}

// ReadTx generates a read-only transaction of random reads over the universe.
func (g *Gen) ReadTx(n int) TxSpec {
	t := TxSpec{Mode: "view"}
	for i := 0; i < n; i++ {
		t.Ops = append(t.Ops, g.readOp())
	}
	return t
}

func (g *Gen) scanBound() []byte {
	k := append([]byte{}, g.pick(g.U.KVKeys)...)
	switch g.R.Intn(6) {
	case 0:
		if len(k) > 1 {
			k = k[:len(k)-1]
		}
	case 1:
		k = append(k, 0)
	case 2:
		k[len(k)-1]++
	case 3:
		if k[len(k)-1] > 0 {
			k[len(k)-1]--
		}
	}
	return k
}

func (g *Gen) prefix() []byte {
	k := g.pick(g.U.KVKeys)
	n := g.R.Intn(len(k) + 1)
	if g.Cfg.Mode == 2 && n == 0 {
		n = 1
	}
	return append([]byte{}, k[:n]...)
}

var regexps = []string{".*", "^[0-9]+$", "0", "^$", "[a-c]"}

func (g *Gen) readOp() Op {
	var kinds []string
	if g.KV {
		kinds = append(kinds, "kv", "kv")
	}
	if g.List {
		kinds = append(kinds, "list")
	}
	if g.Set {
		kinds = append(kinds, "set")
	}
	if g.ZSet {
		kinds = append(kinds, "zset")
	}
	b := g.bucket()
	switch kinds[g.R.Intn(len(kinds))] {
	case "kv":
		switch g.R.Intn(6) {
		case 0:
			return Op{K: "Get", B: b, Key: g.pick(g.U.KVKeys)}
		case 1:
			return Op{K: "GetAll", B: b}
		case 2, 3:
			s, e := g.scanBound(), g.scanBound()
			if g.R.Intn(8) != 0 && string(s) > string(e) {
				s, e = e, s
			}
			return Op{K: "RangeScan", B: b, Key: s, Key2: e}
		case 4:
			return Op{K: "PrefixScan", B: b, Key: g.prefix(), I: 0, J: -1}
		default:
			if g.Cfg.Mode == 2 {
				return Op{K: "PrefixScan", B: b, Key: g.prefix(), I: 0, J: -1}
			}
			return Op{K: "PrefixSearchScan", B: b, Key: g.prefix(), Re: regexps[g.R.Intn(len(regexps))], I: 0, J: -1}
		}
	case "list":
		key := g.pick(g.U.ListKeys)
		n := len(g.M.L[b][string(key)])
		switch g.R.Intn(4) {
		case 0:
			return Op{K: "LPeek", B: b, Key: key}
		case 1:
			return Op{K: "RPeek", B: b, Key: key}
		case 2:
			return Op{K: "LSize", B: b, Key: key}
		default:
			return Op{K: "LRange", B: b, Key: key, I: g.idx(n), J: g.idx(n)}
		}
	case "set":
		key := g.pick(g.U.SetKeys)
		switch g.R.Intn(9) {
		case 0:
			return Op{K: "SIsMember", B: b, Key: key, Val: g.member()}
		case 1:
			return Op{K: "SAreMembers", B: b, Key: key, Vals: [][]byte{g.member(), g.member()}}
		case 2:
			return Op{K: "SMembers", B: b, Key: key}
		case 3:
			return Op{K: "SCard", B: b, Key: key}
		case 4:
			return Op{K: "SHasKey", B: b, Key: key}
		case 5:
			return Op{K: "SDiff1", B: b, Key: key, Key2: g.pick(g.U.SetKeys)}
		case 6:
			return Op{K: "SDiff2", B: b, Key: key, B2: g.bucket(), Key2: g.pick(g.U.SetKeys)}
		case 7:
			return Op{K: "SUnion1", B: b, Key: key, Key2: g.pick(g.U.SetKeys)}
		default:
			return Op{K: "SUnion2", B: b, Key: key, B2: g.bucket(), Key2: g.pick(g.U.SetKeys)}
		}
	default:
		n := len(g.M.Z[b])
		sc := func() float64 {
			return []float64{-2, -1, -0.25, 0, 0.25, 0.5, 1, 1.5, 2, 1000, 2000}[g.R.Intn(11)]
		}
		switch g.R.Intn(11) {
		case 0:
			return Op{K: "ZRangeByRank", B: b, I: g.R.Intn(2*n+6) - n - 3, J: g.R.Intn(2*n+6) - n - 3}
		case 1, 2:
			o := Op{K: "ZRangeByScore", B: b, F: sc(), F2: sc()}
			if g.R.Intn(3) != 0 {
				o.HasOpt, o.Limit, o.ExS, o.ExE = true, g.R.Intn(n+3)-1, g.R.Intn(2) == 0, g.R.Intn(2) == 0
			}
			return o
		case 3:
			o := Op{K: "ZCount", B: b, F: sc(), F2: sc()}
			if g.R.Intn(2) == 0 {
				o.HasOpt, o.Limit, o.ExS, o.ExE = true, g.R.Intn(n+3)-1, g.R.Intn(2) == 0, g.R.Intn(2) == 0
			}
			return o
		case 4:
			return Op{K: "ZRank", B: b, Key: g.zKey()}
		case 5:
			return Op{K: "ZRevRank", B: b, Key: g.zKey()}
		case 6:
			return Op{K: "ZScore", B: b, Key: g.zKey()}
		case 7:
			return Op{K: "ZGetByKey", B: b, Key: g.zKey()}
		case 8:
			return Op{K: "ZCard", B: b}
		case 9:
			return Op{K: "ZMembers", B: b}
		default:
			if g.R.Intn(2) == 0 {
				return Op{K: "ZPeekMax", B: b}
			}
			return Op{K: "ZPeekMin", B: b}
		}
	}
}
