package main

import (
	"fmt"
)

// crashOpts selects the shape of a monitored workload.
type crashOpts struct {
	Power      bool // power-loss images (requires SyncEnable)
	Modes      []int
	NTx        int
	Failed     bool // include failing / rolled-back transactions
	Burst      bool // bursts of tiny back-to-back transactions
	Reopen     bool
	Mode       string // oracle mode for images: "state" or "open"
	Class      string
	ImgCap     int
	SparseRead bool // reads of never-written buckets (sparse mode creates files on read)
	Merge      bool // RAM modes: Merge calls between transactions (no lists / positional sorted-set removals then)
	IOFail     bool // RAM modes: some commits fail on an injected write error (whole or partial write of one of their records)
}

// runCrashWorkload executes a monitored history and checks every crash image of it.
func runCrashWorkload(c *CaseCtx, o crashOpts) {
	r := c.Rng
	cfg := randCfg(r, o.Modes, 150, 700)
	if o.Power {
		cfg.Sync = true
	}
	ds := cfg.Mode == 0
	nb := 2
	if cfg.Mode == 2 {
		nb = 1 // sparse: single bucket (bucket+key ambiguity is C04's business)
	}
	u := defaultUniverse(r, nb, 6+r.Intn(10), ds)
	if cfg.Mode == 2 {
		u.NoGetAll = false
	}
	if cfg.Mode == 2 {
		o.Class += "-sparse"
	}
	run := NewRunner(c, cfg, u, o.Class)
	cr := NewCrashRec(c, run.Dir)
	cr.Power = o.Power
	if o.ImgCap > 0 {
		cr.MaxImg = o.ImgCap
	} else if c.Tier == "quick" {
		// quick tier: at most 1500 distinct images per workload are opened (a uniform sample beyond that; the count of
		// dropped images is reported); the thorough tier opens every one
		cr.MaxImg = 1500
	}
	cr.ContinueMax = tier(c.Tier, 10, 25)
	cr.ImmediateMax, cr.Cfg, cr.U = tier(c.Tier, 6, 12), cfg, u
	cr.Mon.Install()
	defer cr.Mon.Uninstall()
	c.Log("cfg %s buckets=%v power=%v", cfg, u.Buckets, o.Power)

	cr.PushModel(run.M, u)
	cr.SetStep(0, false, "open")
	if !run.Open() {
		return
	}
	g := &Gen{R: r, U: u, Cfg: cfg, KV: true, List: ds, Set: ds, ZSet: ds, TTL: true, MaxOps: 5}
	merging := o.Merge && cfg.Mode != 2
	if merging {
		// what Merge (and a crash inside it) does to lists and to positional sorted-set removals is the recorded
		// finding of C15/C16; the transactions after a Merge are what this workload is about
		g.List, g.NoZPop = false, true
		o.Class += "-merge"
		run.Class = o.Class
	}
	failed, bursts := 0, 0
	ioFail := o.IOFail && cfg.Mode != 2
	if ioFail {
		cr.Inj = &injector{root: run.Dir, rngPick: r.Intn, onlyWrites: true}
		o.Class += "-iofault"
		run.Class = o.Class
	}
	step := func(t TxSpec, expectFail bool) {
		cur := len(cr.States) - 1
		cr.SetStep(cur, true, "tx")
		run.Tx(t, expectFail)
		cr.PushModel(run.M, u)
		cr.SetStep(cur+1, false, "idle")
	}
	for i := 0; i < o.NTx && !run.Dead && !c.Violated(); i++ {
		g.M = run.M
		if run.WriteDead {
			// a commit was refused after an earlier injected fault: no effect (checked by the images of that step too),
			// and a reopen cures it
			cr.SetStep(len(cr.States)-1, false, "reopen")
			if !run.CheckObs("after-refused-commit") || !run.Reopen() || !run.CheckObs("after-refused-commit+reopen") {
				return
			}
		}
		x := r.Intn(100)
		switch {
		case ioFail && x >= 78 && (x < 84 || x < 90 && !merging):
			// the n-th record write of this commit fails (nothing written, or a torn prefix left behind): Commit must
			// report it, and neither the images taken while it fails nor any later image may show one of its records
			t := g.WriteTx(true)
			cur := len(cr.States) - 1
			cr.SetStep(cur, true, "tx-iofault")
			inj := cr.Inj
			inj.armed, inj.n, inj.count, inj.fired, inj.partial = true, 1+r.Intn(4), 0, nil, r.Intn(2) == 0
			wasFault := run.FaultSinceOpen
			run.FaultSinceOpen = true
			out := run.Tx(t, false)
			inj.armed = false
			if inj.fired == nil {
				run.FaultSinceOpen = wasFault // fewer record writes than n: an ordinary transaction
				if out.Err != nil && !wasFault && (t.Mode == "update" || t.Mode == "manual") {
					run.WriteDead = false
					c.Violate("commit-error:"+panicClass(out.Err.Error()), o.Class, fmt.Sprintf("transaction %s failed unexpectedly: %v", t.String(), out.Err))
				}
			} else {
				c.Stat("commits_with_injected_write_error", 1)
				failed++
				if out.Err == nil && out.Panic == "" {
					c.Violate("commit-ok-despite-write-error", o.Class, fmt.Sprintf("transaction %s: write #%d of its commit failed (%s off=%d, %d bytes), Commit returned nil", t.String(), inj.n, inj.fired.Path, inj.fired.Off, len(inj.fired.Data)))
				}
				run.WriteDead = false // this failure was the injected one
			}
			cr.PushModel(run.M, u)
			cr.SetStep(cur+1, false, "idle")
		case o.Failed && x < 8:
			t := g.WriteTx(true)
			t.Mode = "fnerr"
			step(t, false)
			failed++
		case o.Failed && x < 14:
			t := g.WriteTx(true)
			t.Mode = "rollback"
			step(t, false)
			failed++
		case o.Failed && x < 22:
			// an entry larger than a segment somewhere in the transaction
			t := g.WriteTx(true)
			big := Op{K: "Put", B: g.bucket(), Key: g.pick(u.KVKeys), Val: make([]byte, int(cfg.Seg))}
			pos := r.Intn(len(t.Ops) + 1)
			t.Ops = append(t.Ops[:pos], append([]Op{big}, t.Ops[pos:]...)...)
			step(t, true)
			failed++
		case o.Burst && x < 30:
			n := 20 + r.Intn(60)
			for j := 0; j < n && !run.Dead; j++ {
				g.M = run.M
				t := TxSpec{Mode: "update", Ops: []Op{g.kvWrite()}}
				if o.Failed && r.Intn(4) == 0 {
					t.Mode = "fnerr"
				}
				step(t, false)
			}
			bursts++
		case merging && (x >= 90 || ioFail && x >= 84) && run.Files() >= 2:
			// Merge is not a step of the model: the state before and after it is the same
			cr.SetStep(len(cr.States)-1, false, "merge")
			c.Log("merge (%d files)", run.Files())
			syncFault := ioFail && o.Power && r.Intn(3) != 0
			if syncFault {
				// one sync inside this Merge fails (the rewritten records are not durable then): whatever Merge does about
				// it, no later power-loss image may have lost a committed record
				inj := cr.Inj
				inj.armed, inj.n, inj.count, inj.fired, inj.partial, inj.onlyWrites, inj.onlySyncs = true, 1+r.Intn(6), 0, nil, false, false, true
			}
			merr, p := mergeNoPanic(run)
			if syncFault {
				cr.Inj.armed, cr.Inj.onlySyncs, cr.Inj.onlyWrites = false, false, true
				if cr.Inj.fired != nil {
					c.Stat("merges_with_a_failed_sync", 1)
					run.FaultSinceOpen = true
				}
			}
			if p != "" {
				c.Violate("panic:Merge:"+p, o.Class, "Merge panicked: "+p)
				return
			}
			if merr == nil {
				c.Stat("merges_succeeded", 1)
			}
			run.CheckObs("after-merge")
		case o.SparseRead && x < 36:
			cr.SetStep(len(cr.States)-1, false, "view")
			run.Tx(TxSpec{Mode: "view", Ops: []Op{{K: "GetAll", B: "never"}, {K: "Get", B: "never", Key: []byte("k")}, {K: "PrefixScan", B: "never", Key: []byte("k"), J: -1}}}, false)
		case o.Reopen && x < 40:
			cr.SetStep(len(cr.States)-1, false, "reopen")
			if !run.Reopen() {
				return
			}
			run.CheckObs("after-reopen")
		default:
			step(g.WriteTx(true), false)
		}
		if i%10 == 9 {
			cr.SetStep(len(cr.States)-1, false, "view")
			run.CheckObs("in-process")
		}
	}
	if run.Dead || c.Violated() {
		return
	}
	cr.SetStep(len(cr.States)-1, false, "close")
	run.CheckObs("before-close")
	run.Close()
	cr.Mon.Uninstall()
	// the cleanly closed directory is itself an image
	cr.Images = append(cr.Images, Image{Kind: "crash", Snap: cr.Mon.Snap(), Ev: FSEvent{Op: "closed"}, Cur: len(cr.States) - 1})
	cr.CheckImages(cfg, u, o.Mode, o.Class)
	files := countDataFiles(run.Dir)
	c.Stat("workloads", 1)
	c.Stat("rotations_seen", int64(files-1))
	c.Stat("failed_transactions", int64(failed))
	c.Stat("bursts", int64(bursts))
	c.Nontrivial(len(cr.Images) >= 20 && files >= 2)
	if c.Case < 2 {
		c.Sample(map[string]interface{}{"config": cfg.String(), "transactions": run.NTx, "images": len(cr.Images), "fs_events": cr.Mon.Seq, "first_steps": firstLines(c.hist, 5)})
	}
}

func init() {
	register(&Check{
		ID: "C10", Level: "fault_enumeration",
		NCases: func(t string) int { return tier(t, 32, 200) + tier(t, 3, 6) },
		Run: func(c *CaseCtx) {
			if base := tier(c.Tier, 32, 200); c.Case >= base {
				runHookAudit(c, c.Case-base)
				return
			}
			runCrashWorkload(c, crashOpts{Modes: []int{0, 0, 1, 2}, NTx: 12 + c.Rng.Intn(25), Failed: true, Burst: c.Case%3 == 0, Reopen: true,
				Mode: "state", Class: "crash", SparseRead: true, Merge: c.Case%4 == 1, IOFail: c.Case%4 == 2 || c.Case%8 == 1})
		},
		Rule: "case = one monitored workload (all structures in KeyVal mode, KV in KeyOnly/sparse; failing, rolled-back and oversized transactions; in 3/8 of the RAM-mode workloads commits that fail on an injected (whole or partial) record write, handle kept; bursts of back-to-back transactions; reopen points; FileIO/MMap; SyncEnable on/off); " +
			"EVERY file-mutation event of the execution (open, truncate, write, sync, close, remove as reported by the verif hook) is a crash point: the directory as it is just before the event, and for each write every torn prefix at the record-field boundaries, is re-opened with the real Open and fully observed; " +
			"oracle: recovered observation == model state of the committed prefix, or == that plus the in-flight transaction in full; non-trivial = workload produced >=20 images and rotated; distinct by workload hash",
		Assumptions: []string{"process crash = page cache survives: the directory content at the crash point is what the next Open sees (verified for MMap: stores through the mapping are visible to read())", "a torn write leaves a prefix of the written bytes", "the verif hook reports every mutation the library makes: audited in this check by running one workload per index mode under strace and matching every mutating system call on the database directory (creating open, pwrite, write, ftruncate, fsync/msync, unlink, rename, link) against the hook events (3 audit runs quick, 6 thorough; stores through a mapping have no system call, MMapRWManager.WriteAt is their only site)"},
		Floor: func(t string, a map[string]int64) string {
			if a["images_opened"] < 500 || a["images_torn"] == 0 {
				return fmt.Sprintf("only %d images", a["images_opened"])
			}
			if a["audit_unmatched_syscalls"] > 0 {
				return fmt.Sprintf("hook completeness audit: %d mutating system calls on the database directory have no hook event (crash points would be missed); see the inconclusive notes", a["audit_unmatched_syscalls"])
			}
			if a["audit_runs"]+a["audit_skipped"] == 0 {
				return "the hook completeness audit did not run"
			}
			return ""
		},
	})
	register(&Check{
		ID: "C11", Level: "fault_enumeration",
		NCases: func(t string) int { return tier(t, 32, 500) },
		Run: func(c *CaseCtx) {
			runCrashWorkload(c, crashOpts{Power: true, Modes: []int{0, 0, 1, 2}, NTx: 10 + c.Rng.Intn(20), Failed: c.Case%2 == 0, Reopen: true,
				Mode: "state", Class: "power-loss", Merge: c.Case%4 == 1, IOFail: c.Case%4 == 2 || c.Case%8 == 1})
		},
		Rule: "case = one monitored workload with SyncEnable=true (FileIO and MMap; KeyVal, KeyOnly and sparse; in 3/8 of the RAM-mode workloads commits that fail on an injected record write, handle kept); a durable shadow keeps, per file, its content at its last completed sync; at EVERY file-mutation event power-loss images are built: " +
			"durable-only (never-synced files absent), never-synced files zero-filled, per-file mixes of durable and current content, the last unsynced write torn, an unsynced removal undone; each image is re-opened and fully observed; " +
			"oracle as C10 (committed prefix, or that plus the in-flight transaction in full); non-trivial = >=20 images and a rotation",
		Assumptions: []string{"disk model of the property: a file's content after power loss is its content at its last sync, possibly plus any subset/prefix of later writes", "a sync of a file also makes its directory entry durable", "tmpfs makes the real fsync a no-op, which is irrelevant: durability is decided from the event log"},
		Floor: func(t string, a map[string]int64) string {
			if a["images_opened"] < 500 || a["images_pl-durable"] == 0 || a["fs_sync"] == 0 {
				return fmt.Sprintf("only %d images / %d syncs", a["images_opened"], a["fs_sync"])
			}
			return ""
		},
	})
}
