package main

import (
	"fmt"
	"github.com/xujiajun/nutsdb"
	"runtime/debug"
)

// mergeNoPanic calls Merge and converts a panic into an error string.
func mergeNoPanic(run *Runner) (err error, panicS string) {
	defer func() {
		if p := recover(); p != nil {
			panicS = panicClass(p) + " @" + firstRepoFrame(string(debug.Stack()))
		}
	}()
	return run.DB.Merge(), ""
}

// preMergeHandle turns a fresh handle into one that has already completed a Merge: a few segments of an unrelated
// bucket ("pre", not part of any observed universe) are written and merged.  Whatever Merge leaves changed on the
// handle (flags, counters no longer maintained, the active file) is then in effect for everything the caller does
// next - with buckets and structures that did not exist when the Merge ran.  Returns false if the Merge failed.
func preMergeHandle(c *CaseCtx, db *nutsdb.DB, cfg Cfg) bool {
	val := make([]byte, int(cfg.Seg)/3)
	for i := range val {
		val[i] = 1
	}
	for k := 0; k < 8; k++ {
		if err := db.Update(func(tx *nutsdb.Tx) error { return tx.Put("pre", []byte(fmt.Sprintf("p%d", k%3)), val, 0) }); err != nil {
			return false
		}
	}
	ok := false
	func() {
		defer func() { recover() }()
		ok = db.Merge() == nil
	}()
	if ok {
		c.Stat("handles_merged_before_the_history", 1)
	}
	return ok
}

// drainMergeReput empties one bucket key by key (every key that was ever put there is deleted, none that was not),
// merges in the same process, and puts some of the same keys again - the state in which whatever the handle counts
// per bucket (valid keys ...) has gone to zero and is no longer maintained the way it was before the Merge. The
// caller reads afterwards. Returns false when the case should stop.
func drainMergeReput(run *Runner, g *Gen, class string) bool {
	c, u, r := run.C, run.U, g.R
	b := u.Buckets[r.Intn(len(u.Buckets))]
	var ops []Op
	for _, k := range u.KVKeys {
		if _, ever := run.M.KV[b][string(k)]; ever {
			if it := run.M.KV[b][string(k)]; it.live() || r.Intn(2) == 0 {
				ops = append(ops, Op{K: "Delete", B: b, Key: k})
			}
		}
		if len(ops) == 4 {
			run.Tx(TxSpec{Mode: "update", Ops: ops}, false)
			ops = nil
		}
	}
	if len(ops) > 0 {
		run.Tx(TxSpec{Mode: "update", Ops: ops}, false)
	}
	if run.Dead || c.Unexplained() > 0 {
		return false
	}
	for try := 0; try < 2; try++ {
		if run.Files() < 2 {
			break
		}
		c.Log("merge (%d files) with bucket %q drained", run.Files(), b)
		merr, p := mergeNoPanic(run)
		if p != "" {
			c.Violate("panic:Merge:"+p, class, "Merge panicked: "+p)
			return false
		}
		if merr == nil {
			c.Stat("merges_succeeded", 1)
			c.Stat("merges_over_a_drained_bucket", 1)
		}
		if !run.CheckObs("after-merge") {
			return false
		}
		// the same keys again (no key the bucket has not seen before)
		n := 0
		for _, k := range u.KVKeys {
			if _, ever := run.M.KV[b][string(k)]; ever && r.Intn(2) == 0 {
				run.Tx(TxSpec{Mode: "update", Ops: []Op{{K: "Put", B: b, Key: k, Val: g.value(b, len(k))}}}, false)
				n++
			}
		}
		if run.Dead || c.Unexplained() > 0 || !run.CheckObs("after-merge-reput") {
			return false
		}
		g.M = run.M
		run.Tx(g.ReadTx(8), false)
		run.Tx(TxSpec{Mode: "view", Ops: []Op{{K: "GetAll", B: b}, {K: "PrefixScan", B: b, Key: u.KVKeys[0][:1], I: 0, J: -1}, {K: "PrefixScan", B: b, Key: u.KVKeys[0][:1], I: 0, J: 3}}}, false)
		if c.Unexplained() > 0 {
			return false
		}
		// second round: merge again with the re-put keys live
	}
	return true
}

// runC15: sequential histories around Merge, one sub-class per structure kind so that the list finding
// cannot hide a KV / set / sorted-set regression.
func runC15(c *CaseCtx) {
	if slot(c, 16) == 9 {
		kind := []string{"kv", "set", "zset"}[c.Rng.Intn(3)]
		modes := []int{0}
		if kind == "kv" {
			modes = []int{0, 1}
		}
		largeHistory(c, "merge-"+kind, largeOpts{Kind: kind, Modes: modes, Merge: true})
		return
	}
	r := c.Rng
	kind := []string{"kv", "kv", "set", "zset", "list", "mixed"}[c.Case%6]
	cfg := randCfg(r, []int{0, 1}, 96, 400)
	if kind != "kv" {
		cfg.Mode = 0
	}
	class := "merge-" + kind
	u := defaultUniverse(r, 2, 5+r.Intn(8), kind != "kv")
	if kind == "mixed" {
		// the same bucket name and key used by a key/value pair and by a set: separate namespaces that Merge must keep apart
		u.SetKeys = append(u.SetKeys, u.KVKeys[0], u.KVKeys[1])
	}
	run := NewRunner(c, cfg, u, class)
	c.Log("cfg %s buckets=%v kind=%s", cfg, u.Buckets, kind)
	// an injector leaves records of failed transactions in the log (a write error after the first records).
	// Sync errors are not injected here: a failed sync after the write of the commit record leaves the
	// outcome in doubt (the transaction is invisible in the process and visible after a reopen, which
	// C12 allows and decides); this check needs to know the contents before each Merge for certain.
	mon := NewFSMon(run.Dir)
	inj := &injector{root: run.Dir, rngPick: r.Intn, noSync: true}
	mon.OnEvent = inj.onEvent
	mon.Install()
	defer mon.Uninstall()
	if !run.Open() {
		return
	}
	defer run.Close()
	g := &Gen{R: r, U: u, Cfg: cfg, KV: kind == "kv" || kind == "mixed", List: kind == "list", Set: kind == "set" || kind == "mixed",
		ZSet: kind == "zset" || kind == "mixed", TTL: true, MaxOps: 4}
	// cases with a Merge that fails half way on an injected fault: a partially merged directory is what a crash inside
	// Merge leaves, so the structures whose replay is order dependent are left out as in C16 (lists, positional
	// sorted-set removals: recorded findings KF-MERGE-CRASH-LIST / -ZPOP)
	faultedMerge := c.Case%5 == 2 && c.Case%3 != 2 && kind != "list"
	if faultedMerge {
		g.NoZPop = true
	}
	merges, mergeErrs := 0, 0
	doMerge := func(label string) bool {
		files := run.Files()
		c.Log("merge (%d files) %s", files, label)
		if !run.CheckObs("before-merge") {
			return false
		}
		err, p := mergeNoPanic(run)
		merges++
		c.Stat("merges", 1)
		if p != "" {
			c.Violate("panic:Merge:"+p, class, fmt.Sprintf("Merge panicked (%d files, %s): %s", files, cfg, p))
			run.Dead = true
			return false
		}
		if err != nil {
			mergeErrs++
			c.Stat("merges_failed", 1)
			if files >= 2 {
				c.Note("Merge with %d files returned %v", files, err)
			}
		} else {
			c.Stat("merges_succeeded", 1)
			c.StatMax("max_files_merged", int64(files))
		}
		if !run.CheckObs("after-merge") {
			return false
		}
		run.CheckStruct("after-merge")
		return !c.Violated()
	}
	// one history in three injects no I/O fault at all (fn errors and oversized entries only): those are the cases in
	// which the resource monitor applies (no descriptor or mapping of a database file may be left at the end)
	noIOFaults := c.Case%3 == 2
	phase := func(ntx int, failed bool) bool {
		for i := 0; i < ntx && !run.Dead && !c.Violated(); i++ {
			g.M = run.M
			t := g.WriteTx(true)
			x := r.Intn(100)
			switch {
			case failed && x < 8:
				t.Mode = "fnerr"
				run.Tx(t, false)
			case failed && x < 14:
				t.Ops = append(t.Ops, Op{K: "Put", B: g.bucket(), Key: g.pick(u.KVKeys), Val: make([]byte, int(cfg.Seg))})
				run.Tx(t, true)
			case failed && x < 26 && !noIOFaults:
				// the commit is stopped by an injected write error: its first records stay in the log, uncommitted
				g.MaxOps = 6
				t = g.WriteTx(true)
				g.MaxOps = 4
				inj.armed, inj.n, inj.count, inj.fired, inj.partial = true, 2+r.Intn(5), 0, nil, r.Intn(2) == 0
				m0 := run.M
				run.FaultSinceOpen = true
				out := run.Tx(t, false)
				inj.armed = false
				run.WriteDead = false
				if inj.fired != nil {
					c.Log("  injected %s error at file operation #%d of that commit (%s, partial=%v): Commit returned %v", inj.fired.Op, inj.n, inj.fired.Path, inj.partial && inj.fired.Op == "write", out.Err)
				}
				if inj.fired == nil {
					run.FaultSinceOpen = false
				}
				if inj.fired != nil && inj.fired.Op != "write" && inj.fired.Op != "sync" {
					// a failed rotation may leave the handle without a usable active segment: reopen
					if out.Err != nil {
						run.M = m0
					}
					if !run.Reopen() {
						return false
					}
				} else if inj.fired != nil && out.Err != nil {
					run.M = m0
					run.FaultSinceOpen = false
					c.Stat("transactions_stopped_by_injected_write_error", 1)
					if r.Intn(3) == 0 && run.Files() >= 2 {
						// Merge while the records of the failed commit are the newest ones for their keys
						if !doMerge("right after a failed commit") {
							return false
						}
					}
				} else if inj.fired != nil && out.Err == nil {
					c.Stat("faults_swallowed", 1)
				}
			default:
				run.Tx(t, false)
			}
		}
		return !run.Dead && !c.Violated()
	}
	if r.Intn(4) == 0 {
		doMerge("with fewer than two files") // must fail cleanly
	}
	if !phase(15+r.Intn(tier(c.Tier, 25, 60)), true) {
		return
	}
	if kind == "kv" && c.Case%4 == 1 {
		// every record dead at the time of the Merge: all live keys are deleted first (segments whose records are all
		// dead, including the active one); the writes that follow the Merge must survive the reopen like any other
		for _, b := range u.Buckets {
			var ops []Op
			for _, k := range u.KVKeys {
				if it := run.M.KV[b][string(k)]; it.live() {
					ops = append(ops, Op{K: "Delete", B: b, Key: k})
				}
				if len(ops) == 3 {
					run.Tx(TxSpec{Mode: "update", Ops: ops}, false)
					ops = nil
				}
			}
			if len(ops) > 0 {
				run.Tx(TxSpec{Mode: "update", Ops: ops}, false)
			}
		}
		c.Stat("merges_with_every_record_dead", 1)
	}
	if faultedMerge && run.Files() >= 2 {
		// a Merge that fails on an injected I/O error (creating or truncating the rewrite segment, one of its writes,
		// a removal ...): every read must be as before ("whether it succeeds or fails"), the handle stays usable,
		// and the later, successful Merge and the reopen must still show everything
		for k := 0; k < 2 && !c.Violated() && !run.Dead; k++ {
			if !run.CheckObs("before-merge") {
				return
			}
			inj.armed, inj.n, inj.count, inj.fired, inj.partial = true, 1+r.Intn(14), 0, nil, r.Intn(2) == 0
			merr, p := mergeNoPanic(run)
			inj.armed = false
			fired := "none"
			if inj.fired != nil {
				fired = fmt.Sprintf("%s %s (file operation #%d of the Merge, partial=%v)", inj.fired.Op, inj.fired.Path, inj.n, inj.partial && inj.fired.Op == "write")
			}
			c.Log("merge (%d files) with an injected fault: %s -> err=%v", run.Files(), fired, merr)
			c.Stat("merges", 1)
			if p != "" {
				c.Violate("panic:Merge:"+p, class, fmt.Sprintf("Merge panicked after an injected fault (%s): %s", fired, p))
				run.Dead = true
				return
			}
			if inj.fired != nil {
				c.Stat("merges_with_injected_fault", 1)
				if merr == nil {
					c.Stat("merge_faults_swallowed", 1)
				}
			}
			if !run.CheckObs("after-faulted-merge") {
				c.Note("injected: %s; Merge returned %v", fired, merr)
				return
			}
			// the handle goes on being used
			if !phase(3+r.Intn(5), false) {
				return
			}
		}
		if !run.Reopen() || !run.CheckObs("after-faulted-merge-reopen") {
			return
		}
	}
	if !doMerge("first") {
		return
	}
	if r.Intn(2) == 0 && !doMerge("twice in a row") {
		return
	}
	// writes after Merge (also to merged keys) are as durable as any other
	if kind == "kv" && c.Case%4 == 1 {
		// a single small write first: it still fits into whatever segment is the active one after the Merge
		g.M = run.M
		run.Tx(TxSpec{Mode: "update", Ops: []Op{{K: "Put", B: u.Buckets[0], Key: u.KVKeys[0], Val: []byte("w")}}}, false)
		if !run.CheckObs("after-merge-write") {
			return
		}
		// more of the old keys, then a second Merge in the same process, then the reopen
		if !drainMergeReput(run, g, class) {
			return
		}
		if !run.Reopen() || !run.CheckObs("after-merge-write-reopen") {
			return
		}
	}
	if !phase(5+r.Intn(15), true) || !run.CheckObs("after-merge-writes") {
		return
	}
	if !run.Reopen() || !run.CheckObs("after-merge-reopen") {
		return
	}
	if !phase(3+r.Intn(6), false) {
		return
	}
	if !doMerge("after reopen") {
		return
	}
	if run.Reopen() {
		run.CheckObs("final-reopen")
	}
	c.Stat("histories", 1)
	c.Stat("histories_"+kind, 1)
	c.Nontrivial(merges-mergeErrs >= 1)
	if c.Case < 6 {
		c.Sample(map[string]interface{}{"config": cfg.String(), "kind": kind, "merges": merges, "transactions": run.NTx, "first_steps": firstLines(c.hist, 4)})
	}
}

func init() {
	register(&Check{
		ID: "C15", Level: "exploration", LeakClass: "merge-handles",
		NCases: func(t string) int { return tier(t, 240, 5000) },
		Run:    runC15,
		Rule: "[also: 1 case in 16 is a large-geometry history (segments of 9-330 KB: >1000 live records in one segment, or values of 1-69 KB around the 4 KiB and 64 KiB marks and with whole pages of zero bytes; Merge and reopen twice, compared with the model);] case = seeded history (KV with TTL/deletes, or sets, or sorted sets, or lists, or KV+sets+sorted sets mixed; failing and oversized transactions whose uncommitted records stay in the log; SegmentSize 96-400 so that 5-30 files take part) with Merge called with <2 files, after the first phase, twice in a row, and again after a reopen; " +
			"the full observation must equal the reference model immediately before and after each Merge (success or error), after later writes, and after each reopen; B+ tree / skip-list walkers after each Merge; one scenario class per structure kind; non-trivial = at least one successful Merge; distinct by history hash",
		Assumptions: []string{"no transaction runs while Merge runs (C17 covers the concurrent case)"},
		Floor: func(t string, a map[string]int64) string {
			if a["merges_succeeded"] < 50 {
				return fmt.Sprintf("only %d successful merges", a["merges_succeeded"])
			}
			return ""
		},
	})
}

// runC16: every crash point (and torn write) inside Merge; recovered contents must equal the contents before Merge.
func runC16(c *CaseCtx) {
	r := c.Rng
	kind := []string{"kv", "kv", "set", "zset", "mixed", "list", "zsetpop", "kv"}[c.Case%8]
	cfg := randCfg(r, []int{0, 1}, 110, 400)
	if kind != "kv" {
		cfg.Mode = 0
	}
	class := "merge-crash-" + kind
	u := defaultUniverse(r, 2, 5+r.Intn(8), kind != "kv")
	run := NewRunner(c, cfg, u, class)
	c.Log("cfg %s buckets=%v kind=%s", cfg, u.Buckets, kind)
	if !run.Open() {
		return
	}
	g := &Gen{R: r, U: u, Cfg: cfg, KV: kind == "kv" || kind == "mixed", List: kind == "list", Set: kind == "set" || kind == "mixed",
		ZSet: kind == "zset" || kind == "mixed" || kind == "zsetpop", TTL: true, MaxOps: 4, NoZPop: kind != "zsetpop"}
	ntx := 12 + r.Intn(tier(c.Tier, 20, 40))
	for i := 0; i < ntx && !run.Dead && !c.Violated(); i++ {
		g.M = run.M
		t := g.WriteTx(true)
		if r.Intn(10) == 0 {
			t.Mode = "fnerr"
		}
		run.Tx(t, false)
	}
	if run.Dead || c.Violated() {
		return
	}
	if r.Intn(3) == 0 { // a reopen before the merge (index rebuilt from the log)
		if !run.Reopen() {
			return
		}
	}
	if !run.CheckObs("before-merge") {
		run.Close()
		return
	}
	files := run.Files()
	cr := NewCrashRec(c, run.Dir)
	cr.PushModel(run.M, u)
	cr.ContinueMax = tier(c.Tier, 8, 20)
	cr.SetStep(0, false, "merge")
	cr.Mon.Install()
	err, p := mergeNoPanic(run)
	cr.Mon.Uninstall()
	c.Log("merge of %d files: err=%v panic=%q events=%d", files, err, p, cr.Mon.Seq)
	if p != "" {
		c.Violate("panic:Merge:"+p, class, "Merge panicked: "+p)
		return
	}
	run.Close()
	cr.CheckImages(cfg, u, "state", class)
	c.Stat("merges", 1)
	c.StatMax("max_files_merged", int64(files))
	c.Stat("merge_histories_"+kind, 1)
	c.Nontrivial(len(cr.Images) >= 10)
	if c.Case < 6 {
		c.Sample(map[string]interface{}{"config": cfg.String(), "kind": kind, "files_before_merge": files, "images": len(cr.Images), "fs_events_in_merge": cr.Mon.Seq})
	}
}

func init() {
	register(&Check{
		ID: "C16", Level: "fault_enumeration",
		NCases: func(t string) int { return tier(t, 48, 400) },
		Run:    runC16,
		Rule: "case = generated pre-merge history (KV / sets / sorted sets with ZAdd+ZRem / those mixed / sorted sets with positional removals / lists; small segments so 5-30 files take part), then Merge runs under the file-mutation monitor: EVERY event inside Merge (open, truncate, write, sync, close, remove) is a crash point and every write is also torn at the record-field boundaries; " +
			"each image is re-opened with the real Open and fully observed; oracle: recovered contents == contents before Merge (the reference model's state); one scenario class per structure kind; non-trivial = >=10 images; distinct by history hash",
		Assumptions: []string{"crash model as in C10"},
		Floor: func(t string, a map[string]int64) string {
			if a["images_opened"] < 300 || a["fs_remove"] == 0 {
				return fmt.Sprintf("only %d images / %d removes", a["images_opened"], a["fs_remove"])
			}
			return ""
		},
	})
}
