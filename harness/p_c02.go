package main

func init() {
	register(&Check{
		ID: "C02", Level: "exploration",
		NCases: func(t string) int { return tier(t, 160, 600) },
		Run:    runC02,
		Rule: "[also: 1 case in 16 is a large-geometry history (segments of 9-330 KB: >1000 live records in one segment, or values of 1-69 KB around the 4 KiB and 64 KiB marks and with whole pages of zero bytes; Merge and reopen twice, compared with the model); bucket names include one with a dot] case = (FileIO|MMap x StartFileLoadingMode x SegmentSize 150..600, seeded single-bucket history of Put/PutWithTimestamp/Delete transactions with Close/Open every ~15 transactions) in HintBPTSparseIdxMode against the ordered-map model; " +
			"Get of every key, GetAll, RangeScan, PrefixScan (ScanNoLimit and a huge positive limit) compared after commits and after every reopen, including reads of a never-written bucket; " +
			"non-trivial = most keys live in sealed segments (>=3 data files) and the history contains a tombstone and an expired put; distinct by configuration+operation hash",
		Assumptions: []string{"single bucket with a filename-safe name (the ambiguous bucket+key case is C04)", "TTL cases are >=10^6 s from the expiry boundary"},
		Floor: func(t string, a map[string]int64) string {
			if a["api_calls_compared"] < 1000 || a["rotations_seen"] == 0 {
				return "too few compared calls or no rotation"
			}
			return ""
		},
	})
}

func runC02(c *CaseCtx) {
	r := c.Rng
	if slot(c, 16) == 9 {
		largeHistory(c, "sparse-kv", largeOpts{Kind: "kv", Modes: []int{2}})
		return
	}
	cfg := randCfg(r, []int{2}, 150, 600)
	nKeys := []int{6, 12, 25, 40}[r.Intn(4)]
	manyTxPerSegment := c.Case%5 == 4
	if manyTxPerSegment {
		// segments that hold a dozen or more single-record transactions (the per-segment transaction-id index grows
		// beyond one node) before a large transaction rotates several times in one Commit
		cfg.Seg = int64(1200 + r.Intn(1200))
		nKeys = 25
	}
	u := defaultUniverse(r, 1, nKeys, false)
	run := NewRunner(c, cfg, u, "sparse-kv")
	c.Log("cfg %s buckets=%v nkeys=%d", cfg, u.Buckets, nKeys)
	if !run.Open() {
		return
	}
	defer run.Close()
	g := &Gen{R: r, U: u, Cfg: cfg, KV: true, TTL: true, MaxOps: 4}
	ntx := 15 + r.Intn(tier(c.Tier, 45, 100))
	if manyTxPerSegment {
		g.MaxOps = 1
		ntx += 30
	}
	tomb, expired := 0, 0
	reads := func(label string) {
		g.M = run.M
		run.CheckObs(label)
		t := g.ReadTx(8)
		// the same prefix scans with a huge positive limit, and reads of a bucket that was never written
		for _, o := range t.Ops {
			if o.K == "PrefixScan" {
				o2 := o
				o2.J = 1 << 30
				t.Ops = append(t.Ops, o2)
			}
		}
		t.Ops = append(t.Ops, Op{K: "Get", B: "never", Key: []byte("k")}, Op{K: "GetAll", B: "never"},
			Op{K: "RangeScan", B: "never", Key: []byte("a"), Key2: []byte("z")}, Op{K: "PrefixScan", B: "never", Key: []byte("k"), J: -1})
		run.Tx(t, false)
	}
	for i := 0; i < ntx && !run.Dead && !c.Violated(); i++ {
		g.M = run.M
		t := g.WriteTx(true)
		if r.Intn(12) == 0 || manyTxPerSegment && i > 12 && i%16 == 0 {
			// a transaction larger than one or two segments (several rotations inside one Commit)
			t = g.BulkKVTx(2 + r.Intn(2))
			c.Stat("transactions_larger_than_a_segment", 1)
		}
		out := run.Tx(t, false)
		if out.Committed {
			for _, o := range t.Ops {
				if o.K == "Delete" {
					tomb++
				}
				if o.K == "PutTS" && !(&kvItem{val: o.Val, ttl: o.TTL, ts: o.TS}).live() {
					expired++
				}
			}
		}
		rt := TxSpec{Mode: "view"}
		for _, o := range t.Ops {
			rt.Ops = append(rt.Ops, Op{K: "Get", B: o.B, Key: o.Key})
		}
		run.Tx(rt, false)
		if i%5 == 4 || i == ntx-1 {
			reads("after-commit")
			// the on-disk root-index record of every sealed segment decodes to what the running database holds for it
			checkRootIdxFiles(c, run.DB, run.Dir, run.Class)
		}
		if r.Intn(15) == 0 {
			if c.Case%8 == 5 && !manyTxPerSegment {
				if !run.ReopenResized(r, 150, 600, g) {
					return
				}
			} else if !run.Reopen() {
				return
			}
			reads("after-reopen")
		}
	}
	if run.Dead || c.Violated() {
		return
	}
	if run.Reopen() {
		reads("after-final-reopen")
	}
	files := run.Files()
	c.Stat("rotations_seen", int64(files-1))
	c.Stat("tombstones_written", int64(tomb))
	c.Stat("expired_puts_written", int64(expired))
	c.Nontrivial(files >= 3 && tomb >= 1 && expired >= 1)
	if c.Case < 2 {
		c.Sample(map[string]interface{}{"config": cfg.String(), "buckets": u.Buckets, "transactions": run.NTx, "first_steps": firstLines(c.hist, 6)})
	}
}
