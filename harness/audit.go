package main

import (
	"bufio"
	"fmt"
	"io/ioutil"
	"math/rand"
	"os"
	"os/exec"
	"path/filepath"
	"regexp"
	"sort"
	"strconv"
	"strings"
)

// Hook completeness audit (DESIGN 1.6).  The crash / power-loss / fault checks see the library's file mutations
// only through the verif hook.  A mutation site without a hook call would silently remove crash points.  The audit
// runs one workload per configuration in a child process under strace and requires every mutating system call on
// a path below the database directory to have a matching hook event (same kind and path; writes also same offset
// and length).  Stores through a memory mapping have no system call; MMapRWManager.WriteAt is their only site.

// auditChildMain: vcheck auditchild DIR MODE RW SYNC SEED EVENTSFILE
func auditChildMain(args []string) int {
	if len(args) != 6 {
		fmt.Fprintln(os.Stderr, "usage: vcheck auditchild DIR MODE RW SYNC SEED EVENTSFILE")
		return 2
	}
	dir := args[0]
	mode, _ := strconv.Atoi(args[1])
	rw, _ := strconv.Atoi(args[2])
	sync := args[3] == "1"
	seed, _ := strconv.ParseInt(args[4], 10, 64)
	r := rand.New(rand.NewSource(seed))
	cfg := Cfg{Mode: mode, RW: rw, StartRW: rw, Seg: 300 + int64(r.Intn(200)), Sync: sync}
	ds := mode == 0
	nb := 2
	if mode == 2 {
		nb = 1
	}
	u := defaultUniverse(r, nb, 10, ds)
	mon := NewFSMon(dir)
	mon.Record = true
	mon.Install()
	db, err := openNoPanic(cfg.Options(dir))
	if err != nil {
		fmt.Fprintln(os.Stderr, "open:", err)
		return 1
	}
	m := NewModel()
	g := &Gen{R: r, U: u, Cfg: cfg, KV: true, List: false, Set: ds, ZSet: ds, TTL: true, MaxOps: 4, M: m, NoZPop: true}
	runTx := func(t TxSpec) {
		out := execTx(db, t)
		for j, o := range t.Ops {
			if j < len(out.Res) && out.Committed {
				m.Apply(o, out.Res[j])
			}
		}
	}
	for i := 0; i < 40; i++ {
		t := g.WriteTx(true)
		if i%9 == 4 {
			t.Mode = "fnerr"
		}
		runTx(t)
		if i%10 == 5 {
			runTx(TxSpec{Mode: "view", Ops: []Op{{K: "GetAll", B: "never"}, {K: "Get", B: "never", Key: []byte("k")}, {K: "GetAll", B: u.Buckets[0]}}})
		}
		if i == 25 && mode != 2 {
			db.Merge()
		}
		if i == 30 {
			db.Close()
			if db, err = openNoPanic(cfg.Options(dir)); err != nil {
				fmt.Fprintln(os.Stderr, "reopen:", err)
				return 1
			}
		}
	}
	if mode != 2 {
		db.Merge()
	}
	db.Backup(dir + "-backup")
	db.Close()
	mon.Uninstall()
	f, err := os.Create(args[5])
	if err != nil {
		return 1
	}
	w := bufio.NewWriter(f)
	for _, ev := range mon.Events {
		fmt.Fprintf(w, "%s\t%s\t%d\t%d\n", ev.Op, ev.Path, ev.Off, len(ev.Data))
	}
	w.Flush()
	f.Close()
	return 0
}

var (
	straceFdPath = regexp.MustCompile(`^(\d+)<([^>]*)>`)
	straceQuoted = regexp.MustCompile(`"((?:[^"\\]|\\.)*)"`)
)

// joinStrace stitches "<unfinished ...>" / "<... resumed>" pairs of strace -f output back into whole calls.
func joinStrace(path string) []string {
	b, err := ioutil.ReadFile(path)
	if err != nil {
		return nil
	}
	pending := map[string]string{}
	var out []string
	for _, ln := range strings.Split(string(b), "\n") {
		sp := strings.IndexByte(ln, ' ')
		if sp < 0 {
			continue
		}
		pid, rest := ln[:sp], strings.TrimSpace(ln[sp+1:])
		switch {
		case strings.HasSuffix(rest, "<unfinished ...>"):
			pending[pid] = strings.TrimSuffix(rest, "<unfinished ...>")
		case strings.HasPrefix(rest, "<... "):
			if k := strings.Index(rest, "resumed>"); k >= 0 {
				out = append(out, pending[pid]+rest[k+len("resumed>"):])
				delete(pending, pid)
			}
		default:
			out = append(out, rest)
		}
	}
	return out
}

// runHookAudit is one case of C10: a workload under strace, system calls matched against hook events.
func runHookAudit(c *CaseCtx, idx int) {
	if _, err := exec.LookPath("strace"); err != nil {
		c.Inconclusive("strace not available: hook completeness audit skipped")
		c.Stat("audit_skipped", 1)
		return
	}
	mode, rw, sync := idx%3, (idx/3)%2, idx%2 == 0
	dir := c.Dir("auditdb")
	evFile := c.Dir("events.tsv")
	stFile := c.Dir("strace.out")
	exe, _ := os.Executable()
	syncArg := "0"
	if sync {
		syncArg = "1"
	}
	cmd := exec.Command("strace", "-f", "-y", "-qq", "-s", "0", "-o", stFile,
		"-e", "trace=open,openat,creat,pwrite64,write,writev,pwritev,ftruncate,truncate,fsync,fdatasync,msync,mmap,unlink,unlinkat,rename,renameat,renameat2,link,linkat,symlink,symlinkat,fallocate",
		exe, "auditchild", dir, strconv.Itoa(mode), strconv.Itoa(rw), syncArg, strconv.FormatInt(c.Rng.Int63(), 10), evFile)
	outB, err := cmd.CombinedOutput()
	if err != nil {
		if _, serr := os.Stat(evFile); serr != nil {
			c.Inconclusive("strace run failed (ptrace not permitted?): " + firstN(string(outB), 200))
			c.Stat("audit_skipped", 1)
			return
		}
	}
	// hook events
	type key struct {
		kind, path string
		off, n     int64
	}
	hook := map[key]int{}
	evb, _ := ioutil.ReadFile(evFile)
	nHook := 0
	for _, ln := range strings.Split(string(evb), "\n") {
		f := strings.Split(ln, "\t")
		if len(f) != 4 {
			continue
		}
		off, _ := strconv.ParseInt(f[2], 10, 64)
		n, _ := strconv.ParseInt(f[3], 10, 64)
		nHook++
		switch f[0] {
		case "write":
			hook[key{"write", f[1], off, n}]++
			hook[key{"write-any-offset", f[1], 0, n}]++
		case "truncate":
			hook[key{"truncate", f[1], off, 0}]++
		default:
			hook[key{f[0], f[1], 0, 0}]++
		}
	}
	under := func(p string) (string, bool) {
		p = filepath.Clean(p)
		if p == dir {
			return ".", true
		}
		if strings.HasPrefix(p, dir+"/") {
			return p[len(dir)+1:], true
		}
		return "", false
	}
	var unmatched []string
	use := func(k key, call string) {
		if hook[k] > 0 {
			hook[k]--
			c.Stat("audit_syscalls_matched", 1)
			return
		}
		unmatched = append(unmatched, call)
	}
	mapAddr := map[string]string{}
	calls := joinStrace(stFile)
	for _, call := range calls {
		par := strings.IndexByte(call, '(')
		if par < 0 {
			continue
		}
		name, args := call[:par], call[par+1:]
		ret := ""
		if k := strings.LastIndex(call, " = "); k >= 0 {
			ret = strings.TrimSpace(call[k+3:])
		}
		if strings.HasPrefix(ret, "-1") {
			continue // failed calls mutate nothing
		}
		fdPath := func() (string, bool) {
			if m := straceFdPath.FindStringSubmatch(args); m != nil {
				return under(m[2])
			}
			return "", false
		}
		switch name {
		case "open", "openat", "creat":
			if !strings.Contains(args, "O_CREAT") && name != "creat" {
				continue
			}
			// the path is the returned descriptor's annotation (-s 0 elides string arguments)
			if m := regexp.MustCompile(`= \d+<([^>]*)>`).FindStringSubmatch(call); m != nil {
				if rel, ok := under(m[1]); ok {
					if strings.Contains(args, "O_TRUNC") {
						unmatched = append(unmatched, "O_TRUNC open (no hook kind): "+call)
					}
					use(key{"open", rel, 0, 0}, call)
				}
			}
		case "pwrite64":
			if rel, ok := fdPath(); ok {
				f := strings.Split(args[:strings.LastIndex(args, ")")], ",")
				if len(f) >= 4 {
					n, _ := strconv.ParseInt(strings.TrimSpace(f[len(f)-2]), 10, 64)
					off, _ := strconv.ParseInt(strings.TrimSpace(f[len(f)-1]), 10, 64)
					use(key{"write", rel, off, n}, call)
				}
			}
		case "write", "writev", "pwritev":
			if rel, ok := fdPath(); ok {
				f := strings.Split(args[:strings.LastIndex(args, ")")], ",")
				n, _ := strconv.ParseInt(strings.TrimSpace(f[len(f)-1]), 10, 64)
				use(key{"write-any-offset", rel, 0, n}, call)
			}
		case "ftruncate":
			if rel, ok := fdPath(); ok {
				f := strings.Split(args[:strings.LastIndex(args, ")")], ",")
				sz, _ := strconv.ParseInt(strings.TrimSpace(f[len(f)-1]), 10, 64)
				use(key{"truncate", rel, sz, 0}, call)
			}
		case "fsync", "fdatasync":
			if rel, ok := fdPath(); ok {
				if rel == "." {
					use(key{"syncdir", ".", 0, 0}, call)
				} else {
					use(key{"sync", rel, 0, 0}, call)
				}
			}
		case "mmap":
			if strings.Contains(args, "MAP_SHARED") {
				if m := regexp.MustCompile(`(\d+)<([^>]*)>`).FindStringSubmatch(args); m != nil {
					if rel, ok := under(m[2]); ok {
						mapAddr[ret] = rel
					}
				}
			}
		case "msync":
			addr := strings.TrimSpace(strings.Split(args, ",")[0])
			if rel, ok := mapAddr[addr]; ok {
				use(key{"sync", rel, 0, 0}, call)
			}
		case "unlink", "unlinkat", "rename", "renameat", "renameat2", "link", "linkat", "symlink", "symlinkat", "truncate", "fallocate":
			// string arguments are elided by -s 0; re-run is not needed: these calls are rare, so a second, targeted
			// pass with full strings decides them
			c.Stat("audit_path_calls", 1)
		}
	}
	// second pass with full strings for the path-argument calls (unlink/rename/...)
	stFile2 := c.Dir("strace2.out")
	os.RemoveAll(dir)
	os.RemoveAll(dir + "-backup")
	cmd2 := exec.Command("strace", "-f", "-qq", "-s", "4096", "-o", stFile2,
		"-e", "trace=unlink,unlinkat,rename,renameat,renameat2,link,linkat,symlink,symlinkat,truncate",
		exe, "auditchild", dir, strconv.Itoa(mode), strconv.Itoa(rw), syncArg, "1", evFile+"2")
	cmd2.CombinedOutput()
	hook2 := map[string]int{}
	evb2, _ := ioutil.ReadFile(evFile + "2")
	for _, ln := range strings.Split(string(evb2), "\n") {
		f := strings.Split(ln, "\t")
		if len(f) == 4 && f[0] == "remove" {
			hook2[f[1]]++
		}
	}
	for _, call := range joinStrace(stFile2) {
		if strings.Contains(call, " = -1") {
			continue
		}
		par := strings.IndexByte(call, '(')
		if par < 0 {
			continue
		}
		name := call[:par]
		for _, m := range straceQuoted.FindAllStringSubmatch(call, -1) {
			rel, ok := under(m[1])
			if !ok {
				continue
			}
			if (name == "unlink" || name == "unlinkat") && hook2[rel] > 0 {
				hook2[rel]--
				c.Stat("audit_syscalls_matched", 1)
				continue
			}
			unmatched = append(unmatched, call)
		}
	}
	c.Stat("audit_runs", 1)
	c.Stat("audit_hook_events", int64(nHook))
	c.Stat("audit_syscalls_seen", int64(len(calls)))
	sort.Strings(unmatched)
	c.Stat("audit_unmatched_syscalls", int64(len(unmatched)))
	c.Log("hook audit mode=%d rw=%d sync=%v: %d hook events, %d traced calls, %d unmatched", mode, rw, sync, nHook, len(calls), len(unmatched))
	if len(unmatched) > 0 {
		c.Inconclusive("hook completeness audit: mutating system calls without a hook event: " + firstN(strings.Join(unmatched, " ;; "), 1500))
	}
	c.Nontrivial(nHook >= 50)
	c.Sample(map[string]interface{}{"audit": fmt.Sprintf("mode=%d rw=%d sync=%v", mode, rw, sync), "hook_events": nHook, "traced_calls": len(calls), "unmatched": len(unmatched)})
	os.RemoveAll(dir + "-backup")
}
