package main

import (
	"io/ioutil"
	"os"
	"path/filepath"
	"strings"
)

func countDataFiles(dir string) int {
	fs, _ := ioutil.ReadDir(dir)
	n := 0
	for _, f := range fs {
		if strings.HasSuffix(f.Name(), ".dat") {
			n++
		}
	}
	return n
}

// readTree reads every regular file below dir into memory (relative path -> content).
func readTree(dir string) map[string][]byte {
	out := map[string][]byte{}
	filepath.Walk(dir, func(p string, info os.FileInfo, err error) error {
		if err != nil || info.IsDir() {
			return nil
		}
		b, err := ioutil.ReadFile(p)
		if err != nil {
			return nil
		}
		rel, _ := filepath.Rel(dir, p)
		out[rel] = b
		return nil
	})
	return out
}

// listDirs lists the sub-directories below dir (relative).
func listDirs(dir string) []string {
	var out []string
	filepath.Walk(dir, func(p string, info os.FileInfo, err error) error {
		if err != nil || !info.IsDir() || p == dir {
			return nil
		}
		rel, _ := filepath.Rel(dir, p)
		out = append(out, rel)
		return nil
	})
	return out
}

func writeTree(dir string, dirs []string, files map[string][]byte) error {
	if err := os.MkdirAll(dir, 0755); err != nil {
		return err
	}
	for _, d := range dirs {
		if err := os.MkdirAll(filepath.Join(dir, d), 0755); err != nil {
			return err
		}
	}
	for rel, b := range files {
		p := filepath.Join(dir, rel)
		if err := os.MkdirAll(filepath.Dir(p), 0755); err != nil {
			return err
		}
		if err := ioutil.WriteFile(p, b, 0644); err != nil {
			return err
		}
	}
	return nil
}

func tier(t string, quick, thorough int) int {
	if t == "thorough" {
		return thorough
	}
	return quick
}

// leakedHandles lists what the process still holds below prefix: open file descriptors (/proc/self/fd) and
// memory mappings (/proc/self/maps). Called when a case has closed every database it opened.
func leakedHandles(prefix string) (fds, maps []string) {
	if es, err := ioutil.ReadDir("/proc/self/fd"); err == nil {
		for _, e := range es {
			if t, err := os.Readlink("/proc/self/fd/" + e.Name()); err == nil && strings.HasPrefix(t, prefix) {
				fds = append(fds, t)
			}
		}
	}
	if b, err := ioutil.ReadFile("/proc/self/maps"); err == nil {
		for _, ln := range strings.Split(string(b), "\n") {
			if i := strings.Index(ln, prefix); i >= 0 {
				maps = append(maps, ln[i:])
			}
		}
	}
	return
}

// loopBudget is a monitor for non-termination decided on logical steps, not on wall-clock time: the library
// reports each iteration of an instrumented loop through the yield hook; one API call that reports more
// iterations than any correct execution can need (a B+ tree descent is bounded by the tree's height) is stopped
// by a panic raised from the hook, which the caller's per-call recover turns into a violation.
type loopBudget struct {
	n     int64
	limit int64
}

type loopBudgetExceeded struct{ point string }

func (e loopBudgetExceeded) Error() string {
	return "verif: loop budget exceeded at " + e.point + " (the call does not terminate)"
}

func (lb *loopBudget) hook(point string) {
	if !strings.HasSuffix(point, ".descend") {
		return
	}
	lb.n++
	if lb.n > lb.limit {
		lb.n = 0
		panic(loopBudgetExceeded{point})
	}
}

func (lb *loopBudget) reset() { lb.n = 0 }

// slot spreads a "one case in n" scenario over the workers: cases are dealt to workers by case number modulo the
// worker count, so a selector like Case%16 == 9 would put every such case on one worker (and make it the long pole).
func slot(c *CaseCtx, n int) int { return (c.Case + c.Case/n) % n }
