package main

import (
	"bytes"
	"encoding/binary"
	"fmt"
	"hash/crc32"
	"io/ioutil"
	"math"
	"math/rand"
	"os"
	"path/filepath"
	"runtime/debug"
	"syscall"
	"time"

	"github.com/xujiajun/nutsdb"
)

// ---------------------------------------------------------------- generic record abstraction

type recKind struct {
	name string
	// write stores the encoded record in a fresh file and returns the stored bytes
	encode func() []byte
	// read reads the record back from path (which holds possibly corrupted bytes) and returns a
	// canonical description of all fields, "" for "absent", or an error
	read func(path string, rw int) (string, error)
	want string
	// heavy reports whether flipping this bit may request a huge buffer
	heavy func(bit int) bool
	pad   int // zero bytes the reader's capacity adds after the record
}

func readNoPanic(k *recKind, path string, rw int) (desc string, err error) {
	defer func() {
		if p := recover(); p != nil {
			err = fmt.Errorf("PANIC %s @%s", panicClass(p), firstRepoFrame(string(debug.Stack())))
			desc = "PANIC"
		}
	}()
	return k.read(path, rw)
}

func entryDesc(f nutsdb.VerifEntryFields) string {
	return fmt.Sprintf("bucket=%q key=%q value=%q ts=%d ttl=%d flag=%d status=%d ds=%d tx=%d", f.Bucket, f.Key, f.Value, f.Timestamp, f.TTL, f.Flag, f.Status, f.Ds, f.TxID)
}

func randBytes(r *rand.Rand, n int) []byte {
	b := make([]byte, n)
	for i := range b {
		switch r.Intn(4) {
		case 0:
			b[i] = 0
		case 1:
			b[i] = 0xff
		default:
			b[i] = byte(r.Intn(256))
		}
	}
	return b
}

func pickLen(r *rand.Rand, max int) int {
	switch r.Intn(5) {
	case 0:
		return 0
	case 1:
		return 1
	case 2:
		return max
	default:
		return r.Intn(max + 1)
	}
}

func genEntryKind(r *rand.Rand, big bool) *recKind {
	u16 := []uint16{0, 1, 2, 3, 13, 14, 255, 256, math.MaxUint16}
	u32 := []uint32{0, 1, 1000000, math.MaxUint32}
	u64 := []uint64{0, 1, 1 << 32, math.MaxUint64, uint64(r.Int63())}
	maxB, maxK, maxV := 12, 24, 60
	if big {
		maxB, maxK, maxV = 300, 300, 2000
	}
	f := nutsdb.VerifEntryFields{
		Bucket: randBytes(r, pickLen(r, maxB)), Key: randBytes(r, pickLen(r, maxK)), Value: randBytes(r, pickLen(r, maxV)),
		Timestamp: u64[r.Intn(len(u64))], TTL: u32[r.Intn(len(u32))], Flag: u16[r.Intn(len(u16))], Status: u16[r.Intn(len(u16))],
		Ds: u16[r.Intn(len(u16))], TxID: u64[r.Intn(len(u64))],
	}
	if len(f.Key) == 0 && len(f.Value) == 0 && f.Timestamp == 0 {
		f.Timestamp = 1 // (crc, sizes, timestamp) all zero is the documented "no record here" marker
	}
	enc := nutsdb.VerifNewEntry(f).Encode()
	if forge := r.Intn(5); forge == 0 && len(f.Value) >= 4 {
		// a record whose stored checksum is 0 - the value the "no record here" test looks at: the last four value
		// bytes are chosen so that the CRC-32 of the record comes out as that. (0xffffffff is not forged: the
		// CRC-32 of ff ff ff ff followed by any number of zero bytes is 0xffffffff, so such a record with a
		// timestamp of all ones, truncated to 8 bytes, IS a valid empty record - a property of the checksum, not a
		// defect of the reader; see DESIGN section 7.)
		want := uint32(0)
		tail := forgeCRC(enc[4:len(enc)-4], want)
		copy(f.Value[len(f.Value)-4:], tail[:])
		enc = nutsdb.VerifNewEntry(f).Encode()
		if got := binary.LittleEndian.Uint32(enc[0:4]); got != want {
			panic(fmt.Sprintf("harness: forged checksum is %08x, wanted %08x", got, want))
		}
	}
	k := &recKind{name: "entry", want: entryDesc(f), pad: 16}
	k.encode = func() []byte { return enc }
	k.read = func(path string, rw int) (string, error) {
		df, err := nutsdb.NewDataFile(path, int64(len(enc)+k.pad), nutsdb.RWMode(rw))
		if err != nil {
			return "", err
		}
		defer df.Close()
		e, err := df.ReadAt(0)
		if err != nil {
			return "", err
		}
		if e == nil {
			return "", nil
		}
		bs, ks, vs := e.VerifSizes()
		g := e.VerifFields()
		if int(bs) != len(g.Bucket) || int(ks) != len(g.Key) || int(vs) != len(g.Value) {
			return entryDesc(g) + fmt.Sprintf(" SIZES(%d,%d,%d)", bs, ks, vs), nil
		}
		return entryDesc(g), nil
	}
	k.heavy = heavyBits(12, 16, 26)
	return k
}

func genRootIdxKind(r *rand.Rand) *recKind {
	u64 := []uint64{0, 1, 1 << 40, math.MaxUint64, uint64(r.Int63())}
	f := nutsdb.VerifRootIdxFields{FID: u64[r.Intn(len(u64))], RootOff: u64[r.Intn(len(u64))], Start: randBytes(r, pickLen(r, 40)), End: randBytes(r, pickLen(r, 40))}
	if f.FID == 0 && f.RootOff == 0 && len(f.Start) == 0 && len(f.End) == 0 {
		f.FID = 1 // all-zero is the "no record" marker
	}
	desc := func(g nutsdb.VerifRootIdxFields) string {
		return fmt.Sprintf("fid=%d rootOff=%d start=%q end=%q", g.FID, g.RootOff, g.Start, g.End)
	}
	rec := nutsdb.VerifNewRootIdx(f)
	enc := rec.Encode()
	k := &recKind{name: "root-index", want: desc(f)}
	k.encode = func() []byte { return enc }
	k.read = func(path string, rw int) (string, error) {
		fd, err := os.Open(path)
		if err != nil {
			return "", err
		}
		defer fd.Close()
		b, err := nutsdb.ReadBPTreeRootIdxAt(fd, 0)
		if err != nil {
			return "", err
		}
		if b == nil {
			return "", nil
		}
		return desc(b.VerifFields()), nil
	}
	k.heavy = heavyBits(20, 24)
	return k
}

func genBucketMetaKind(r *rand.Rand) *recKind {
	start, end := randBytes(r, pickLen(r, 40)), randBytes(r, pickLen(r, 40))
	desc := func(s, e []byte) string { return fmt.Sprintf("start=%q end=%q", s, e) }
	enc := nutsdb.VerifNewBucketMeta(start, end).Encode()
	k := &recKind{name: "bucket-meta", want: desc(start, end)}
	k.encode = func() []byte { return enc }
	k.read = func(path string, rw int) (string, error) {
		bm, err := nutsdb.ReadBucketMeta(path)
		if err != nil {
			return "", err
		}
		if bm == nil {
			return "", nil
		}
		s, e := bm.VerifFields()
		return desc(s, e), nil
	}
	k.heavy = heavyBits(4, 8)
	return k
}

// forgeCRC returns the four bytes which, appended to prefix, give the whole a CRC-32 (IEEE) of want.
func forgeCRC(prefix []byte, want uint32) [4]byte {
	tab := crc32.IEEETable
	var rev [256]byte // rev[top byte of tab[i]] = i
	for i := 0; i < 256; i++ {
		rev[tab[i]>>24] = byte(i)
	}
	state := ^crc32.ChecksumIEEE(prefix) // register after the prefix
	target := ^want                      // register after the four bytes
	// run the register backwards over four byte steps
	for i := 0; i < 4; i++ {
		idx := rev[target>>24]
		target = (target^tab[idx])<<8 | uint32(idx)
	}
	v := target ^ state
	return [4]byte{byte(v), byte(v >> 8), byte(v >> 16), byte(v >> 24)}
}

// heavyBits: a flip of bit 20..31 of a little-endian uint32 size field (at the given byte offsets) changes
// the size by 1 MiB .. 2 GiB, which the reader allocates before it fails.
func heavyBits(fieldOffsets ...int) func(bit int) bool {
	return func(bit int) bool {
		by := bit / 8
		for _, f := range fieldOffsets {
			if by == f+3 || (by == f+2 && bit%8 >= 4) {
				return true
			}
		}
		return false
	}
}

// heavySlot serialises the reads that may request multi-GiB buffers across all worker processes (2 at a time).
func heavySlot(i int) func() {
	f, err := os.OpenFile(filepath.Join(scratchBase(), fmt.Sprintf("verif-heavy-%d.lock", i%2)), os.O_CREATE|os.O_RDWR, 0644)
	if err != nil {
		return func() {}
	}
	syscall.Flock(int(f.Fd()), syscall.LOCK_EX)
	return func() {
		syscall.Flock(int(f.Fd()), syscall.LOCK_UN)
		f.Close()
		debug.FreeOSMemory()
	}
}

func runC21(c *CaseCtx) {
	r := c.Rng
	var k *recKind
	switch c.Case % 4 {
	case 0, 1:
		k = genEntryKind(r, c.Case%8 == 1)
	case 2:
		k = genRootIdxKind(r)
	default:
		k = genBucketMetaKind(r)
	}
	enc := k.encode()
	path := c.Dir("rec.bin")
	class := "codec-" + k.name
	c.Log("%s %s", k.name, k.want)
	rws := []int{0}
	if k.name == "entry" {
		rws = []int{0, 1}
	}
	check := func(what string, rw int, content []byte) {
		if err := ioutil.WriteFile(path, content, 0644); err != nil {
			c.Inconclusive("write failed: " + err.Error())
			return
		}
		got, err := readNoPanic(k, path, rw)
		c.Stat("corrupt_reads", 1)
		switch {
		case got == "PANIC":
			c.Violate("panic:"+k.name+":"+errClass(err.Error()), class, fmt.Sprintf("reading the record after %s panicked: %v (record: %s)", what, err, k.want))
		case err != nil:
			c.Stat("outcome_error", 1)
		case got == "":
			c.Stat("outcome_absent", 1)
		case got == k.want:
			c.Stat("outcome_identical", 1)
		default:
			c.Violate("corruption-served:"+k.name, class, fmt.Sprintf("after %s (rw mode %d) the reader returned a different record:\n  written: %s\n  read:    %s", what, rw, k.want, got))
		}
	}
	// ---- round trip
	for _, rw := range rws {
		ioutil.WriteFile(path, enc, 0644)
		got, err := readNoPanic(k, path, rw)
		c.Stat("round_trips", 1)
		if err != nil || got != k.want {
			c.Violate("round-trip:"+k.name, class, fmt.Sprintf("record does not round-trip (rw mode %d): err=%v\n  written: %s\n  read:    %s", rw, err, k.want, got))
			return
		}
	}
	// ---- every single-bit flip
	// the upper 12 bits of a size field: the reader requests 1 MiB .. 2 GiB before it fails
	heavyBudget := c.Case < 4 || (c.Tier == "thorough" && c.Case%200 < 4)
	for _, rw := range rws {
		for bit := 0; bit < len(enc)*8; bit++ {
			if k.heavy(bit) {
				continue // the size fields' top bits run in the heavy lane below
			}
			b := append([]byte{}, enc...)
			b[bit/8] ^= 1 << uint(bit%8)
			check(fmt.Sprintf("flipping bit %d (byte %d)", bit, bit/8), rw, b)
			c.Stat("bit_flips", 1)
			if c.Unexplained() >= 4 {
				return
			}
		}
	}
	if heavyBudget {
		release := heavySlot(c.Case)
		for _, rw := range rws {
			for bit := 0; bit < len(enc)*8; bit++ {
				if !k.heavy(bit) {
					continue
				}
				b := append([]byte{}, enc...)
				b[bit/8] ^= 1 << uint(bit%8)
				check(fmt.Sprintf("flipping bit %d (top byte of a size field)", bit), rw, b)
				c.Stat("heavy_bit_flips", 1)
			}
		}
		release()
	}
	// ---- every truncation length
	for _, rw := range rws {
		for l := 0; l < len(enc); l++ {
			check(fmt.Sprintf("truncating to %d of %d bytes", l, len(enc)), rw, enc[:l])
			if c.Unexplained() >= 4 {
				return
			}
		}
		c.Stat("truncations", int64(len(enc)))
	}
	// ---- a few double flips / byte overwrites (beyond what CRC-32 guarantees; still must never serve wrong data
	//      unless the checksum collides, which the evidence would show as a violation to be triaged)
	for i := 0; i < 50 && len(enc) > 0; i++ {
		b := append([]byte{}, enc...)
		p := r.Intn(len(b))
		if k.heavy(p * 8) {
			continue
		}
		b[p] = byte(r.Intn(256))
		if bytes.Equal(b, enc) {
			continue
		}
		check(fmt.Sprintf("overwriting byte %d", p), rws[r.Intn(len(rws))], b)
	}
	c.Stat("records", 1)
	c.Stat("records_"+k.name, 1)
	c.Nontrivial(true)
	if c.Case < 4 {
		c.Sample(map[string]interface{}{"kind": k.name, "record": firstN(k.want, 300), "stored_bytes": len(enc)})
	}
}

func init() {
	register(&Check{
		ID: "C21", Level: "fault_enumeration", NoLeakMonitor: true,
		NCases: func(t string) int { return tier(t, 120, 700) + tier(t, 64, 250) },
		Run: func(c *CaseCtx) {
			if c.Case >= tier(c.Tier, 120, 700) {
				runC21DB(c)
				return
			}
			runC21(c)
		},
		Rule: "case = one generated record (data entry: empty/long bucket, key, value, all flag/status/ds codes incl. out-of-range ones, timestamps/TTLs/tx ids at 0,1,max; sparse root-index record; bucket meta record), encoded by the library, stored, read back through the library's reader (DataFile.ReadAt in FileIO and MMap, ReadBPTreeRootIdxAt, ReadBucketMeta): all fields must be equal; " +
			"then EVERY single-bit flip of the stored bytes and EVERY truncation length, plus random byte overwrites: the reader must return an error, 'absent', or the identical record; the upper 12 bits of each 32-bit size field (1 MiB - 2 GiB buffer requests before the read fails) run in a two-at-a-time lane on a subset of records; distinct by record hash; " +
			"database-level cases: a generated KV history (KeyOnly, sparse, KeyVal; FileIO/MMap; several segments) whose stored records are damaged in place - a bit of a record under the still-open handle that indexed it (then every Get, GetAll, RangeScan and PrefixScan), and a bit flip or truncation of a data segment, sparse root-index file or bucket meta file followed by a reopen: every pair any read returns must have been written under that key by some transaction (errors, not-found and a refused Open are the allowed outcomes)",
		Assumptions:  []string{"CRC-32 detects every single-bit error of a fixed-length message; flips that change a length field rely on the checksum not colliding (probability 2^-32 per read)"},
		CaseDeadline: 8 * time.Minute,
		Floor: func(t string, a map[string]int64) string {
			if a["db_level_live_corruptions"] < 200 || a["db_level_reopen_corruptions"] < 200 {
				return fmt.Sprintf("database-level corruptions: %d live, %d reopen", a["db_level_live_corruptions"], a["db_level_reopen_corruptions"])
			}
			if a["bit_flips"] < 50000 || a["truncations"] < 5000 || a["records_entry"] == 0 || a["records_root-index"] == 0 || a["records_bucket-meta"] == 0 {
				return fmt.Sprintf("bit flips %d, truncations %d", a["bit_flips"], a["truncations"])
			}
			return ""
		},
	})
}
