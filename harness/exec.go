package main

import (
	"fmt"
	"runtime/debug"
	"sort"
	"strconv"
	"strings"

	"github.com/xujiajun/nutsdb"
	"github.com/xujiajun/nutsdb/ds/zset"
)

// TxSpec is one transaction of a history.
//
//	Mode "update": db.Update, every op is attempted, fn returns nil (Commit is attempted)
//	Mode "view":   db.View
//	Mode "fnerr":  db.Update whose fn returns an error after the ops (=> rollback)
//	Mode "rollback": Begin(true) ... Rollback()
//	Mode "manual": Begin(true) ... Commit() (and Rollback() if Commit fails)
type TxSpec struct {
	Mode string `json:"mode"`
	Ops  []Op   `json:"ops"`
}

func (t TxSpec) Writable() bool { return t.Mode != "view" }

func (t TxSpec) String() string {
	parts := make([]string, len(t.Ops))
	for i, o := range t.Ops {
		parts[i] = o.String()
	}
	return t.Mode + "{" + strings.Join(parts, "; ") + "}"
}

type TxOut struct {
	Res       []Res
	Err       error  // error of Begin / Update / View / Commit
	Committed bool   // the transaction's effects are expected to be in force
	Panic     string // panic outside an individual call (Commit, Begin, Rollback)
	Stack     string
}

func panicClass(p interface{}) string {
	s := fmt.Sprint(p)
	// strip varying numbers so that signatures are stable
	var b strings.Builder
	lastDigit := false
	for _, c := range s {
		if c >= '0' && c <= '9' {
			if !lastDigit {
				b.WriteByte('N')
			}
			lastDigit = true
			continue
		}
		lastDigit = false
		b.WriteRune(c)
	}
	return b.String()
}

// firstRepoFrame extracts the first nutsdb function on a panic stack.
func firstRepoFrame(stack string) string {
	for _, ln := range strings.Split(stack, "\n") {
		if strings.HasPrefix(ln, "github.com/xujiajun/nutsdb") && !strings.Contains(ln, "verif") {
			if i := strings.LastIndex(ln, "("); i > 0 {
				ln = ln[:i]
			}
			return strings.TrimPrefix(ln, "github.com/xujiajun/nutsdb")
		}
	}
	return "?"
}

func entriesPairs(es nutsdb.Entries) string {
	ps := make([]string, len(es))
	for i, e := range es {
		if e == nil {
			ps[i] = "<nil-entry>"
			continue
		}
		ps[i] = q(e.Key) + "=" + q(e.Value)
	}
	return "[" + strings.Join(ps, ",") + "]"
}

func znode(n *zset.SortedSetNode) *zNode {
	if n == nil {
		return nil
	}
	return &zNode{n.Key(), float64(n.Score()), n.Value}
}

func znodes(ns []*zset.SortedSetNode) string {
	out := make([]string, len(ns))
	for i, n := range ns {
		out[i] = zOne(znode(n))
	}
	return "[" + strings.Join(out, ",") + "]"
}

func errRes(err error) Res { return Res{Err: true, ErrS: err.Error()} }

func boolRes(b bool, err error) Res {
	if err != nil {
		return errRes(err)
	}
	return Res{V: strconv.FormatBool(b)}
}

func intRes(n int, err error) Res {
	if err != nil {
		return errRes(err)
	}
	return Res{V: strconv.Itoa(n)}
}

func listRes(l [][]byte, err error) Res {
	if err != nil {
		return errRes(err)
	}
	return Res{V: qs(l)}
}

func setRes(l [][]byte, err error) Res {
	if err != nil {
		return errRes(err)
	}
	return Res{V: sortedQs(l)}
}

func okRes(err error) Res {
	if err != nil {
		return errRes(err)
	}
	return Res{}
}

func itemRes(b []byte, err error) Res {
	if err != nil {
		return errRes(err)
	}
	if b == nil {
		return Res{V: "nil"}
	}
	return Res{V: q(b)}
}

func zOpt(o Op) *zset.GetByScoreRangeOptions {
	if !o.HasOpt {
		return nil
	}
	return &zset.GetByScoreRangeOptions{Limit: o.Limit, ExcludeStart: o.ExS, ExcludeEnd: o.ExE}
}

// execOp performs one call on a real transaction and canonicalises the outcome.
func execOp(tx *nutsdb.Tx, o Op) (r Res) {
	defer func() {
		if p := recover(); p != nil {
			st := string(debug.Stack())
			r = Res{Panic: panicClass(p) + " @" + firstRepoFrame(st)}
		}
	}()
	switch o.K {
	case "Put":
		return okRes(tx.Put(o.B, o.Key, o.Val, o.TTL))
	case "PutTS":
		return okRes(tx.PutWithTimestamp(o.B, o.Key, o.Val, o.TTL, o.TS))
	case "Delete":
		return okRes(tx.Delete(o.B, o.Key))
	case "Get":
		e, err := tx.Get(o.B, o.Key)
		if err != nil {
			return errRes(err)
		}
		if e == nil {
			return Res{V: "<nil-entry>"}
		}
		return Res{V: q(e.Value)}
	case "GetAll":
		es, err := tx.GetAll(o.B)
		if err != nil {
			return errRes(err)
		}
		return Res{V: entriesPairs(es)}
	case "RangeScan":
		es, err := tx.RangeScan(o.B, o.Key, o.Key2)
		if err != nil {
			return errRes(err)
		}
		return Res{V: entriesPairs(es)}
	case "PrefixScan":
		es, _, err := tx.PrefixScan(o.B, o.Key, o.I, o.J)
		if err != nil {
			return errRes(err)
		}
		return Res{V: entriesPairs(es)}
	case "PrefixSearchScan":
		es, _, err := tx.PrefixSearchScan(o.B, o.Key, o.Re, o.I, o.J)
		if err != nil {
			return errRes(err)
		}
		return Res{V: entriesPairs(es)}
	case "RPush", "LPush":
		// the caller's argument array is reused after the call (see execListDS)
		buf := make([][]byte, len(o.Vals), len(o.Vals)+3)
		copy(buf, o.Vals)
		var err error
		if o.K == "RPush" {
			err = tx.RPush(o.B, o.Key, buf...)
		} else {
			err = tx.LPush(o.B, o.Key, buf...)
		}
		for i := range buf {
			buf[i] = []byte("\xee-overwritten-by-the-caller")
		}
		return okRes(err)
	case "RPop":
		return itemRes(tx.RPop(o.B, o.Key))
	case "LPop":
		return itemRes(tx.LPop(o.B, o.Key))
	case "RPeek":
		return itemRes(tx.RPeek(o.B, o.Key))
	case "LPeek":
		return itemRes(tx.LPeek(o.B, o.Key))
	case "LSize":
		return intRes(tx.LSize(o.B, o.Key))
	case "LRange":
		return listRes(tx.LRange(o.B, o.Key, o.I, o.J))
	case "LRem":
		return intRes(tx.LRem(o.B, o.Key, o.I, o.Val))
	case "LSet":
		return okRes(tx.LSet(o.B, o.Key, o.I, o.Val))
	case "LTrim":
		return okRes(tx.LTrim(o.B, o.Key, o.I, o.J))
	case "SAdd":
		return okRes(tx.SAdd(o.B, o.Key, o.Vals...))
	case "SRem":
		return okRes(tx.SRem(o.B, o.Key, o.Vals...))
	case "SPop":
		return itemRes(tx.SPop(o.B, o.Key))
	case "SIsMember":
		return boolRes(tx.SIsMember(o.B, o.Key, o.Val))
	case "SAreMembers":
		return boolRes(tx.SAreMembers(o.B, o.Key, o.Vals...))
	case "SMembers":
		return setRes(tx.SMembers(o.B, o.Key))
	case "SCard":
		return intRes(tx.SCard(o.B, o.Key))
	case "SHasKey":
		return boolRes(tx.SHasKey(o.B, o.Key))
	case "SDiff1":
		return setRes(tx.SDiffByOneBucket(o.B, o.Key, o.Key2))
	case "SDiff2":
		return setRes(tx.SDiffByTwoBuckets(o.B, o.Key, o.B2, o.Key2))
	case "SUnion1":
		return setRes(tx.SUnionByOneBucket(o.B, o.Key, o.Key2))
	case "SUnion2":
		return setRes(tx.SUnionByTwoBuckets(o.B, o.Key, o.B2, o.Key2))
	case "SMove1":
		return boolRes(tx.SMoveByOneBucket(o.B, o.Key, o.Key2, o.Val))
	case "SMove2":
		return boolRes(tx.SMoveByTwoBuckets(o.B, o.Key, o.B2, o.Key2, o.Val))
	case "ZAdd":
		return okRes(tx.ZAdd(o.B, o.Key, o.F, o.Val))
	case "ZRem":
		return okRes(tx.ZRem(o.B, string(o.Key)))
	case "ZRemRangeByRank":
		return okRes(tx.ZRemRangeByRank(o.B, o.I, o.J))
	case "ZPopMax", "ZPopMin", "ZPeekMax", "ZPeekMin", "ZGetByKey":
		var n *zset.SortedSetNode
		var err error
		switch o.K {
		case "ZPopMax":
			n, err = tx.ZPopMax(o.B)
		case "ZPopMin":
			n, err = tx.ZPopMin(o.B)
		case "ZPeekMax":
			n, err = tx.ZPeekMax(o.B)
		case "ZPeekMin":
			n, err = tx.ZPeekMin(o.B)
		case "ZGetByKey":
			n, err = tx.ZGetByKey(o.B, o.Key)
		}
		if err != nil {
			return errRes(err)
		}
		return Res{V: zOne(znode(n))}
	case "ZRangeByScore":
		ns, err := tx.ZRangeByScore(o.B, o.F, o.F2, zOpt(o))
		if err != nil {
			return errRes(err)
		}
		return Res{V: znodes(ns)}
	case "ZCount":
		return intRes(tx.ZCount(o.B, o.F, o.F2, zOpt(o)))
	case "ZRangeByRank":
		ns, err := tx.ZRangeByRank(o.B, o.I, o.J)
		if err != nil {
			return errRes(err)
		}
		return Res{V: znodes(ns)}
	case "ZRank":
		return intRes(tx.ZRank(o.B, o.Key))
	case "ZRevRank":
		return intRes(tx.ZRevRank(o.B, o.Key))
	case "ZScore":
		f, err := tx.ZScore(o.B, o.Key)
		if err != nil {
			return errRes(err)
		}
		return Res{V: fl(f)}
	case "ZCard":
		return intRes(tx.ZCard(o.B))
	case "ZMembers":
		mm, err := tx.ZMembers(o.B)
		if err != nil {
			return errRes(err)
		}
		var ns []zNode
		for k, n := range mm {
			if n == nil {
				ns = append(ns, zNode{K: k + "<nil-node>"})
				continue
			}
			zn := *znode(n)
			if zn.K != k {
				zn.K = k + "<dict-key-mismatch:" + zn.K + ">"
			}
			ns = append(ns, zn)
		}
		sort.Slice(ns, func(i, j int) bool { return ns[i].K < ns[j].K })
		return Res{V: zStr(ns)}
	}
	return Res{Err: true, ErrS: "harness: unknown op " + o.K}
}

// arenaOps copies every byte-slice argument of ops into one contiguous buffer and returns ops whose arguments are
// sub-slices of it (nil stays nil).
func arenaOps(ops []Op) ([]Op, []byte) {
	total := 0
	for _, o := range ops {
		total += len(o.Key) + len(o.Key2) + len(o.Val)
		for _, v := range o.Vals {
			total += len(v)
		}
	}
	arena := make([]byte, 0, total+8)
	put := func(b []byte) []byte {
		if b == nil {
			return nil
		}
		off := len(arena)
		arena = append(arena, b...)
		return arena[off:len(arena):cap(arena)] // spare capacity: the arguments that follow
	}
	out := make([]Op, len(ops))
	for i, o := range ops {
		o.Key, o.Key2, o.Val = put(o.Key), put(o.Key2), put(o.Val)
		if o.Vals != nil {
			vs := make([][]byte, len(o.Vals))
			for j, v := range o.Vals {
				vs[j] = put(v)
			}
			o.Vals = vs
		}
		out[i] = o
	}
	arena = append(arena, "\xee\xee\xee\xee"...)
	return out, arena[:cap(arena)]
}

type fnError struct{}

func (fnError) Error() string { return "harness: fn error" }

// execTx runs one transaction against the real database.
func execTx(db *nutsdb.DB, t TxSpec) (out TxOut) {
	defer func() {
		if p := recover(); p != nil {
			st := string(debug.Stack())
			out.Panic = panicClass(p) + " @" + firstRepoFrame(st)
			out.Stack = st
			out.Committed = false
		}
	}()
	// The arguments are handed over the way an application with its own buffers does it: every key, value and
	// member of the transaction is a sub-slice of ONE buffer (so each has spare capacity, and what follows it in
	// the buffer is another argument), and the buffer is overwritten as soon as the transaction has ended. A
	// library that appends to a caller's slice, or keeps a caller's slice beyond the transaction, shows up as a
	// wrong result.
	ops, arena := arenaOps(t.Ops)
	defer func() {
		for i := range arena {
			arena[i] = 0xee
		}
	}()
	run := func(tx *nutsdb.Tx) {
		out.Res = make([]Res, 0, len(ops))
		for _, o := range ops {
			out.Res = append(out.Res, execOp(tx, o))
		}
	}
	switch t.Mode {
	case "update":
		out.Err = db.Update(func(tx *nutsdb.Tx) error { run(tx); return nil })
		out.Committed = out.Err == nil
	case "view":
		out.Err = db.View(func(tx *nutsdb.Tx) error { run(tx); return nil })
	case "fnerr":
		err := db.Update(func(tx *nutsdb.Tx) error { run(tx); return fnError{} })
		if _, ok := err.(fnError); !ok {
			out.Err = err
		}
	case "rollback":
		tx, err := db.Begin(true)
		if err != nil {
			out.Err = err
			return
		}
		run(tx)
		out.Err = tx.Rollback()
	case "manual":
		tx, err := db.Begin(true)
		if err != nil {
			out.Err = err
			return
		}
		run(tx)
		if err = tx.Commit(); err != nil {
			out.Err = err
			tx.Rollback()
			return
		}
		out.Committed = true
	default:
		panic("harness: unknown tx mode " + t.Mode)
	}
	return
}
