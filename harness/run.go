package main

import (
	"fmt"
	"os"
	"runtime/debug"

	"github.com/xujiajun/nutsdb"
)

// Runner drives one real database and the reference model side by side.
type Runner struct {
	C     *CaseCtx
	Cfg   Cfg
	Dir   string
	U     *Universe
	DB    *nutsdb.DB
	M     *Model
	Class string // scenario class used in signatures
	Dead  bool   // the database can no longer be used (panic in Commit left the lock held ...)
	NTx   int

	// FaultSinceOpen: an I/O fault was injected since the last Open. A later Commit may then fail
	// (the handle may have lost its active segment); that is tolerated as long as it has no effect,
	// and WriteDead asks the caller to reopen.
	FaultSinceOpen bool
	WriteDead      bool

	// when set, called instead of Violate for a per-call mismatch inside a write transaction;
	// returns true if the mismatch was handled (explained) and should not be reported
	OnMismatch func(t TxSpec, i int, o Op, exp Exp, got Res) bool

	// SigTag, when set, adds a qualifier to the signature of a per-call mismatch
	SigTag func(o Op) string
}

func NewRunner(c *CaseCtx, cfg Cfg, u *Universe, class string) *Runner {
	return &Runner{C: c, Cfg: cfg, Dir: c.Dir("db"), U: u, M: NewModel(), Class: class}
}

func (r *Runner) Open() bool {
	var db *nutsdb.DB
	var err error
	func() {
		defer func() {
			if p := recover(); p != nil {
				err = fmt.Errorf("PANIC %s @%s", panicClass(p), firstRepoFrame(string(debug.Stack())))
			}
		}()
		db, err = nutsdb.Open(r.Cfg.Options(r.Dir))
	}()
	if err != nil {
		r.C.Violate("open-failed:"+panicClass(err.Error()), r.Class, fmt.Sprintf("Open(%s) failed: %v", r.Cfg, err))
		r.Dead = true
		return false
	}
	r.DB = db
	r.FaultSinceOpen, r.WriteDead = false, false
	return true
}

func (r *Runner) Close() {
	if r.DB != nil && !r.Dead {
		if err := r.DB.Close(); err != nil {
			r.C.Violate("close-failed", r.Class, fmt.Sprintf("Close failed: %v", err))
		}
	}
	r.DB = nil
}

// ReopenResized closes the database and opens it with another SegmentSize (a configuration change between two runs
// of an application); g, when given, sizes its values for the new segments from then on.
func (r *Runner) ReopenResized(rng interface{ Int63n(int64) int64 }, lo, hi int64, g *Gen) bool {
	r.Cfg.Seg = lo + rng.Int63n(hi-lo+1)
	if g != nil {
		g.Cfg = r.Cfg
	}
	r.C.Log("SegmentSize is now %d", r.Cfg.Seg)
	r.C.Stat("reopens_with_another_segment_size", 1)
	return r.Reopen()
}

func (r *Runner) Reopen() bool {
	r.C.Log("reopen")
	r.C.Stat("reopens", 1)
	r.Close()
	if r.Dead {
		return false
	}
	return r.Open()
}

// Tx executes a transaction on the database and the model, comparing every call.
// expectFail: the generator knows this transaction cannot commit (oversize entry ...).
func (r *Runner) Tx(t TxSpec, expectFail bool) TxOut {
	r.NTx++
	r.C.Log("tx %d %s", r.NTx, t.String())
	if r.Dead || r.DB == nil {
		return TxOut{}
	}
	out := execTx(r.DB, t)
	if traceOn {
		fmt.Fprintf(os.Stderr, "TRACE   -> err=%v committed=%v panic=%q\n", out.Err, out.Committed, out.Panic)
	}
	r.C.Stat("transactions", 1)
	r.C.Stat("api_calls_compared", int64(len(out.Res)))
	if out.Panic != "" {
		r.C.Violate("panic:tx:"+out.Panic, r.Class, fmt.Sprintf("panic outside a single call in %s: %s\n%s", t.String(), out.Panic, firstN(out.Stack, 1500)))
		r.Dead = true
		return out
	}
	m := r.M.Clone()
	for i, o := range t.Ops {
		if i >= len(out.Res) {
			break
		}
		exp := m.Expect(o, t.Writable())
		got := out.Res[i]
		if ok, kind := exp.Accepts(got); !ok {
			if r.OnMismatch == nil || !r.OnMismatch(t, i, o, exp, got) {
				tag := ""
				if r.SigTag != nil {
					tag = r.SigTag(o)
				}
				sig := "call:" + o.K + tag + ":" + kind
				if got.Panic != "" {
					sig = "panic:" + o.K + ":" + got.Panic
				}
				r.C.Violate(sig, r.Class, fmt.Sprintf("%s in tx %d (%s, %s): got %s, model allows %s", o.String(), r.NTx, t.Mode, r.Cfg, got.String(), exp.String()))
			}
		}
		m.Apply(o, got)
	}
	if out.Committed {
		r.M = m
		r.C.Stat("committed_transactions", 1)
	}
	if t.Mode == "update" || t.Mode == "manual" {
		if out.Err != nil && !expectFail && r.FaultSinceOpen {
			r.WriteDead = true
			r.C.Stat("commits_refused_after_fault", 1)
		} else if out.Err != nil && !expectFail {
			r.C.Violate("commit-error:"+panicClass(out.Err.Error()), r.Class, fmt.Sprintf("transaction %d %s failed unexpectedly: %v", r.NTx, t.String(), out.Err))
		}
		if out.Err == nil && expectFail {
			r.C.Violate("commit-succeeded-unexpectedly", r.Class, fmt.Sprintf("transaction %d %s was expected to fail", r.NTx, t.String()))
		}
	} else if out.Err != nil {
		r.C.Violate("tx-error:"+t.Mode+":"+panicClass(out.Err.Error()), r.Class, fmt.Sprintf("%s transaction failed: %v", t.Mode, out.Err))
	}
	return out
}

// CheckObs compares the full observation of the real database with the model.
func (r *Runner) CheckObs(label string) bool {
	if r.Dead || r.DB == nil {
		return false
	}
	got, err := obsReal(r.DB, r.U)
	if err != nil {
		r.C.Violate("obs-view-error", r.Class, fmt.Sprintf("observation (%s) failed: %v", label, err))
		return false
	}
	want := obsModel(r.M, r.U)
	r.C.Stat("observations", 1)
	r.C.Stat("observed_reads", int64(len(got)))
	if !sameObs(got, want) {
		r.C.Violate("obs:"+label+":"+firstDiffCall(got, want), r.Class,
			fmt.Sprintf("full observation %s differs from the model after tx %d (%s):\n%s", label, r.NTx, r.Cfg, diffObs(got, want)))
		return false
	}
	return true
}

func (r *Runner) CheckStruct(label string) {
	if r.Dead || r.DB == nil {
		return
	}
	var err error
	func() {
		defer func() {
			if p := recover(); p != nil {
				err = fmt.Errorf("walker panic: %v", p)
			}
		}()
		err = r.DB.VerifCheckIndexes()
	}()
	r.C.Stat("structure_walks", 1)
	if err != nil {
		r.C.Violate("struct:"+panicClass(err.Error()), r.Class, fmt.Sprintf("index structure broken %s after tx %d: %v", label, r.NTx, err))
	}
}

// Files returns how many data segments the directory holds.
func (r *Runner) Files() int { return countDataFiles(r.Dir) }
