package main

import (
	"fmt"
	"io/ioutil"
	"math/rand"
	"os"
	"path/filepath"
	"regexp"
	"runtime"
	"sort"
	"strconv"
	"strings"
	"sync"
	"sync/atomic"
	"time"

	"github.com/anishathalye/porcupine"
	"github.com/xujiajun/nutsdb"
)

// ---------------------------------------------------------------- recorded histories

// concIn / concOut are the input and output of one transaction seen as one atomic operation.
type concIn struct {
	DB       int
	Shard    int
	Part     string // non-empty: the operation belongs to this partition (one key of the many-keys bucket) instead of a shard
	Writable bool
	Ops      []Op
}

type concOut struct {
	Res       []Res
	Committed bool
}

type histRec struct {
	mu  sync.Mutex
	ops []porcupine.Operation
	t0  time.Time
}

func (h *histRec) now() int64 { return time.Since(h.t0).Nanoseconds() }

func (h *histRec) add(op porcupine.Operation) {
	h.mu.Lock()
	h.ops = append(h.ops, op)
	h.mu.Unlock()
}

func shardBucket(s int) string { return "s" + strconv.Itoa(s) }

// txModel: the sequential specification - a transaction is one atomic step on the shard it touches.
func txModel() porcupine.Model {
	return porcupine.Model{
		Partition: func(history []porcupine.Operation) [][]porcupine.Operation {
			parts := map[string][]porcupine.Operation{}
			var keys []string
			for _, op := range history {
				in := op.Input.(concIn)
				k := fmt.Sprintf("%d/%d", in.DB, in.Shard)
				if in.Part != "" {
					k = fmt.Sprintf("%d/p/%s", in.DB, in.Part)
				}
				if _, ok := parts[k]; !ok {
					keys = append(keys, k)
				}
				parts[k] = append(parts[k], op)
			}
			sort.Strings(keys)
			out := make([][]porcupine.Operation, 0, len(keys))
			for _, k := range keys {
				out = append(out, parts[k])
			}
			return out
		},
		Init: func() interface{} { return NewModel() },
		Step: func(state, input, output interface{}) (bool, interface{}) {
			in, out := input.(concIn), output.(concOut)
			m := state.(*Model).Clone()
			for i, o := range in.Ops {
				if i >= len(out.Res) {
					break
				}
				exp := m.Expect(o, in.Writable)
				if ok, _ := exp.Accepts(out.Res[i]); !ok {
					return false, state
				}
				m.Apply(o, out.Res[i])
			}
			if !out.Committed {
				return true, state
			}
			return true, m
		},
		Equal: func(a, b interface{}) bool {
			return modelDigest(a.(*Model)) == modelDigest(b.(*Model))
		},
		DescribeOperation: func(input, output interface{}) string {
			in, out := input.(concIn), output.(concOut)
			parts := make([]string, len(in.Ops))
			for i, o := range in.Ops {
				r := "?"
				if i < len(out.Res) {
					r = out.Res[i].String()
				}
				parts[i] = o.String() + "=>" + r
			}
			return fmt.Sprintf("db%d shard%d committed=%v {%s}", in.DB, in.Shard, out.Committed, strings.Join(parts, "; "))
		},
	}
}

// modelDigest is a canonical rendering of everything a model holds.
func modelDigest(m *Model) string {
	var sb strings.Builder
	var bs []string
	seen := map[string]bool{}
	for b := range m.KV {
		seen[b] = true
	}
	for b := range m.L {
		seen[b] = true
	}
	for b := range m.S {
		seen[b] = true
	}
	for b := range m.Z {
		seen[b] = true
	}
	for b := range seen {
		bs = append(bs, b)
	}
	sort.Strings(bs)
	for _, b := range bs {
		sb.WriteString("B" + b + ":")
		sb.WriteString(pairsStr(m.livePairs(b)))
		var ks []string
		for k := range m.L[b] {
			ks = append(ks, k)
		}
		sort.Strings(ks)
		for _, k := range ks {
			if len(m.L[b][k]) > 0 {
				sb.WriteString("L" + k + qs(m.L[b][k]))
			}
		}
		ks = ks[:0]
		for k := range m.S[b] {
			ks = append(ks, k)
		}
		sort.Strings(ks)
		for _, k := range ks {
			if len(m.S[b][k]) > 0 {
				sb.WriteString("S" + k + setSorted(m.S[b][k]))
			}
		}
		sb.WriteString("Z" + zStr(m.zsorted(b)))
	}
	return sb.String()
}

// ---------------------------------------------------------------- workload

type concCfg struct {
	DBs        []Cfg
	Goroutines int
	TxPerG     int
	Shards     int
	YieldP     float64
	Merge      int // goroutines calling Merge in a loop (C17)
	KVSetsOnly bool
	Class      string
	PreMerge   bool // RAM-mode databases: fill a few segments of an unrelated bucket and Merge once before the workload
	// AllDeadStart: the databases start with several segments in which every record is dead, and the workers start
	// only once the first Merge is under way (they queue up on the lock while Merge holds it)
	AllDeadStart bool
	// DrainedStart (RAM modes): every key the workload will ever use is put and deleted again in every shard bucket,
	// and the database merged, before the workload starts: the buckets exist, hold nothing live, and the handle has
	// merged once - the workload then puts only keys those buckets have seen before, and every Merge is a second one
	DrainedStart bool
	// PKeys > 0: a bucket "pb" with that many live keys (each key is its own partition of the checked history):
	// Merge runs long over many live records while workers overwrite, delete and read single keys of it
	PKeys int
}

type yielder struct {
	p     float64
	count int64
	mu    sync.Mutex
	rng   *rand.Rand
}

func (y *yielder) maybe(point string) {
	if y.p <= 0 {
		return
	}
	y.mu.Lock()
	x := y.rng.Float64()
	d := y.rng.Intn(150)
	y.mu.Unlock()
	if x < y.p {
		atomic.AddInt64(&y.count, 1)
		if d < 100 {
			runtime.Gosched()
		} else {
			time.Sleep(time.Duration(d) * time.Microsecond)
		}
	}
}

// genConcTx builds one shard transaction: reads first, then at most one state-dependent write per structure, then blind writes.
func genConcTx(r *rand.Rand, shard int, ds bool, kvSetsOnly bool, search bool, client int, ctr *int) (ops []Op, writable bool) {
	b := shardBucket(shard)
	keys := [][]byte{[]byte("k1"), []byte("k2")}
	val := func() []byte { *ctr++; return []byte(fmt.Sprintf("c%d-%d", client, *ctr)) }
	writable = r.Intn(10) < 7
	nReads := r.Intn(4)
	if !writable {
		nReads = 2 + r.Intn(4)
	}
	for i := 0; i < nReads; i++ {
		if search && r.Intn(8) == 0 {
			// a regular expression nobody has used before (the text after the last '|' never matches): read paths that
			// cache or share compiled expressions are exercised by concurrent readers with fresh expressions
			*ctr++
			re := []string{"[12]", "^1$", "2", ".*", "^$"}[r.Intn(5)] + fmt.Sprintf("|u%d-%d", client, *ctr)
			ops = append(ops, Op{K: "PrefixSearchScan", B: b, Key: []byte("k"), Re: re, I: 0, J: -1})
			continue
		}
		if r.Intn(5) == 0 {
			ops = append(ops, Op{K: "Get", B: b, Key: []byte("k3")})
			continue
		}
		switch x := r.Intn(10); {
		case !ds && x >= 6:
			if x < 8 {
				ops = append(ops, Op{K: "GetAll", B: b})
			} else {
				ops = append(ops, Op{K: "PrefixScan", B: b, Key: []byte("k"), I: 0, J: -1})
			}
		case x < 4 || !ds:
			ops = append(ops, Op{K: "Get", B: b, Key: keys[r.Intn(2)]})
		case x < 5:
			ops = append(ops, Op{K: "GetAll", B: b})
		case x < 7 && !kvSetsOnly:
			ops = append(ops, Op{K: "LRange", B: b, Key: []byte("l"), I: 0, J: -1})
		case x < 9:
			ops = append(ops, Op{K: "SMembers", B: b, Key: []byte("s")})
		default:
			if kvSetsOnly {
				ops = append(ops, Op{K: "SCard", B: b, Key: []byte("s")})
			} else {
				ops = append(ops, Op{K: "ZRangeByRank", B: b, I: 1, J: -1})
			}
		}
	}
	if !writable {
		// read the same things again: a read-only transaction must see one unchanging state
		ops = append(ops, ops...)
		return
	}
	if ds {
		if !kvSetsOnly && r.Intn(4) == 0 {
			ops = append(ops, Op{K: []string{"LPop", "RPop"}[r.Intn(2)], B: b, Key: []byte("l")})
		}
		if r.Intn(5) == 0 {
			ops = append(ops, Op{K: "SPop", B: b, Key: []byte("s")})
		}
		if !kvSetsOnly && r.Intn(5) == 0 {
			ops = append(ops, Op{K: []string{"ZPopMax", "ZPopMin"}[r.Intn(2)], B: b})
		}
	}
	nw := 1 + r.Intn(3)
	for i := 0; i < nw; i++ {
		if r.Intn(6) == 0 {
			// a third key that is, at random, written already expired (timestamp far in the past: no verdict depends
			// on the clock), live with a TTL far in the future, or deleted: read paths that treat expired records
			// specially (lazy expiry, counters) run concurrently with each other
			switch r.Intn(4) {
			case 3: // a timestamp far in the future (a writer whose clock is ahead) with a short TTL: live
				ops = append(ops, Op{K: "PutTS", B: b, Key: []byte("k3"), Val: val(), TS: modelNow() + 10000000, TTL: 1})
			case 0:
				ops = append(ops, Op{K: "PutTS", B: b, Key: []byte("k3"), Val: val(), TS: 1, TTL: 1})
			case 1:
				ops = append(ops, Op{K: "PutTS", B: b, Key: []byte("k3"), Val: val(), TS: modelNow() - 1000000, TTL: 4000000})
			default:
				ops = append(ops, Op{K: "Put", B: b, Key: []byte("k3"), Val: val()})
			}
			continue
		}
		switch x := r.Intn(12); {
		case x < 5 || !ds:
			if r.Intn(5) == 0 {
				ops = append(ops, Op{K: "Delete", B: b, Key: keys[r.Intn(2)]})
			} else {
				ops = append(ops, Op{K: "Put", B: b, Key: keys[r.Intn(2)], Val: val()})
			}
		case x < 7 && !kvSetsOnly:
			ops = append(ops, Op{K: []string{"RPush", "LPush"}[r.Intn(2)], B: b, Key: []byte("l"), Vals: [][]byte{val()}})
		case x < 10:
			ops = append(ops, Op{K: "SAdd", B: b, Key: []byte("s"), Vals: [][]byte{val()}})
		default:
			if kvSetsOnly {
				ops = append(ops, Op{K: "SAdd", B: b, Key: []byte("s"), Vals: [][]byte{val()}})
			} else {
				ops = append(ops, Op{K: "ZAdd", B: b, Key: []byte(fmt.Sprintf("m%d", r.Intn(4))), F: float64(r.Intn(5)), Val: val()})
			}
		}
	}
	return
}

type concResult struct {
	hist        []porcupine.Operation
	txs         int64
	overlaps    int64
	yields      int64
	snapshotBad []string
	seqBad      []string
	panics      []string
	merges      int64
	mergeErrs   int64
	finalBad    []string
	finalReads  int64
	preMerges   int64
	pkeyOps     int64
	orders      map[string]bool
}

// runConc runs the concurrent workload and returns the recorded history.
func runConc(c *CaseCtx, cc concCfg) *concResult {
	res := &concResult{orders: map[string]bool{}}
	seed := c.Rng.Int63()
	y := &yielder{p: cc.YieldP, rng: rand.New(rand.NewSource(seed))}
	mergeStarted := make(chan struct{})
	var mergeStartedOnce sync.Once
	var removesLeft int32 = -1 // AllDeadStart: data files the first Merge still has to remove before the workers are let go
	nutsdb.VerifSetYieldHook(func(point string) {
		if point == "merge.beforeRemove" {
			// the workers are released when the first Merge is about to remove its LAST segment (the active one): they
			// queue up on the lock and are the first to get in wherever that Merge lets go of it
			if atomic.AddInt32(&removesLeft, -1) <= 0 {
				mergeStartedOnce.Do(func() { close(mergeStarted) })
			}
		}
		y.maybe(point)
	})
	nutsdb.VerifSetFSHook(func(op, path string, off int64, b []byte) (bool, int, error) {
		if op == "write" || op == "sync" || op == "syncdir" || op == "remove" {
			y.maybe("fs." + op)
		}
		if op == "syncdir" && cc.AllDeadStart {
			// a directory sync takes milliseconds on a real disk and none on tmpfs: give the queued workers the time a
			// real fsync would (it changes nothing unless the lock is not held here)
			time.Sleep(3 * time.Millisecond)
		}
		return false, 0, nil
	})
	defer nutsdb.VerifSetYieldHook(nil)
	defer nutsdb.VerifSetFSHook(nil)

	var dbs []*nutsdb.DB
	for i, cfg := range cc.DBs {
		db, err := openNoPanic(cfg.Options(c.Dir(fmt.Sprintf("db%d", i))))
		if err != nil {
			c.Violate("open-failed:"+errClass(err.Error()), cc.Class, "Open failed: "+err.Error())
			return res
		}
		dbs = append(dbs, db)
	}
	if cc.PreMerge {
		// a handle that has already merged successfully is a different state of the library (flags and the active
		// file were changed by Merge); the concurrent phase must behave the same on it
		for i, db := range dbs {
			if cc.DBs[i].Mode == 2 {
				continue
			}
			val := make([]byte, int(cc.DBs[i].Seg)/3)
			for k := 0; k < 8; k++ {
				db.Update(func(tx *nutsdb.Tx) error { return tx.Put("pre", []byte(fmt.Sprintf("p%d", k%3)), val, 0) })
			}
			func() {
				defer func() {
					if p := recover(); p != nil {
						res.panics = append(res.panics, fmt.Sprintf("Merge before the workload panicked: %v", p))
					}
				}()
				if err := db.Merge(); err == nil {
					res.preMerges++
				}
			}()
		}
	}
	if cc.DrainedStart {
		for i, db := range dbs {
			if cc.DBs[i].Mode == 2 {
				continue
			}
			val := make([]byte, int(cc.DBs[i].Seg)/4)
			for s := 0; s < cc.Shards; s++ {
				for _, k := range []string{"k1", "k2", "k3"} {
					db.Update(func(tx *nutsdb.Tx) error { return tx.Put(shardBucket(s), []byte(k), val, 0) })
				}
			}
			for s := 0; s < cc.Shards; s++ {
				db.Update(func(tx *nutsdb.Tx) error {
					for _, k := range []string{"k1", "k2", "k3"} {
						if err := tx.Delete(shardBucket(s), []byte(k)); err != nil {
							return err
						}
					}
					return nil
				})
			}
			for k := 0; k < 4; k++ {
				db.Update(func(tx *nutsdb.Tx) error { return tx.Put("pre", []byte(fmt.Sprintf("p%d", k%2)), val, 0) })
			}
			func() {
				defer func() {
					if p := recover(); p != nil {
						res.panics = append(res.panics, fmt.Sprintf("Merge before the workload panicked: %v", p))
					}
				}()
				if err := db.Merge(); err == nil {
					res.preMerges++
				}
			}()
		}
	}
	h := &histRec{t0: time.Now()}
	if cc.AllDeadStart {
		for i, db := range dbs {
			if cc.DBs[i].Mode == 2 {
				continue
			}
			val := make([]byte, int(cc.DBs[i].Seg)/3)
			for k := 0; k < 7; k++ {
				db.Update(func(tx *nutsdb.Tx) error { return tx.Put("pre", []byte(fmt.Sprintf("p%d", k%3)), val, 0) })
			}
			db.Update(func(tx *nutsdb.Tx) error {
				for k := 0; k < 3; k++ {
					tx.Delete("pre", []byte(fmt.Sprintf("p%d", k)))
				}
				return nil
			})
		}
	}
	if cc.AllDeadStart {
		atomic.StoreInt32(&removesLeft, int32(countDataFiles(c.Dir("db0"))))
	}
	pkey := func(i int) []byte { return []byte(fmt.Sprintf("pk%04d", i)) }
	if cc.PKeys > 0 {
		// the initial Put of every key is part of the recorded history (one operation per key, all keys of a batch
		// share the batch transaction's interval)
		for di, db := range dbs {
			for base := 0; base < cc.PKeys; base += 25 {
				call := h.now()
				var ops []Op
				err := db.Update(func(tx *nutsdb.Tx) error {
					for i := base; i < base+25 && i < cc.PKeys; i++ {
						o := Op{K: "Put", B: "pb", Key: pkey(i), Val: []byte(fmt.Sprintf("init-%d", i))}
						if r := execOp(tx, o); r.Err {
							return fmt.Errorf("%s", r.ErrS)
						}
						ops = append(ops, o)
					}
					return nil
				})
				ret := h.now()
				if err != nil {
					c.Violate("commit-error:"+errClass(err.Error()), cc.Class, "filling the many-keys bucket failed: "+err.Error())
					return res
				}
				for _, o := range ops {
					h.add(porcupine.Operation{ClientId: cc.Goroutines + 2, Input: concIn{DB: di, Part: string(o.Key), Writable: true, Ops: []Op{o}}, Call: call, Output: concOut{Res: []Res{{}}, Committed: true}, Return: ret})
				}
			}
		}
	}
	var wg sync.WaitGroup
	var mu sync.Mutex
	stop := int32(0)
	var txCount int64
	seqSeen := make([]map[string]map[int][2]int64, len(dbs)) // db -> shard -> seq value -> [call,return]
	for i := range seqSeen {
		seqSeen[i] = map[string]map[int][2]int64{}
	}
	for g := 0; g < cc.Goroutines; g++ {
		wg.Add(1)
		go func(g int) {
			defer wg.Done()
			r := rand.New(rand.NewSource(seed + int64(g)*7919))
			ctr := 0
			if cc.AllDeadStart && cc.Merge > 0 {
				select {
				case <-mergeStarted:
				case <-time.After(50 * time.Millisecond):
				}
			}
			for n := 0; n < cc.TxPerG; n++ {
				di := r.Intn(len(dbs))
				db := dbs[di]
				cfg := cc.DBs[di]
				shard := r.Intn(cc.Shards)
				ops, writable := genConcTx(r, shard, cfg.Mode == 0, cc.KVSetsOnly, cfg.Mode != 2, g, &ctr)
				part := ""
				if cc.PKeys > 0 && r.Intn(3) != 0 {
					// a transaction on one key of the many-keys bucket: read it, then (two times in three) overwrite or delete it
					k := pkey(r.Intn(cc.PKeys))
					part = string(k)
					ops = []Op{{K: "Get", B: "pb", Key: k}}
					writable = r.Intn(3) != 0
					if writable {
						if r.Intn(5) == 0 {
							ops = append(ops, Op{K: "Delete", B: "pb", Key: k})
						} else {
							ctr++
							ops = append(ops, Op{K: "Put", B: "pb", Key: k, Val: []byte(fmt.Sprintf("c%d-%d", g, ctr))})
						}
					} else {
						ops = append(ops, ops[0])
					}
				}
				failFn := writable && r.Intn(12) == 0
				in := concIn{DB: di, Shard: shard, Part: part, Writable: writable}
				out := concOut{}
				seqVal := -1
				var panicS string
				call := h.now()
				fn := func(tx *nutsdb.Tx) error {
					defer func() {
						if p := recover(); p != nil {
							panicS = fmt.Sprintf("%v", p)
						}
					}()
					if writable && part == "" {
						// the shard's sequence key: read, then (with the blind writes) write n+1
						o := Op{K: "Get", B: shardBucket(shard), Key: []byte("seq")}
						r0 := execOp(tx, o)
						in.Ops = append(in.Ops, o)
						out.Res = append(out.Res, r0)
						seqVal = 0
						if !r0.Err {
							if s, err := strconv.Unquote(r0.V); err == nil {
								seqVal, _ = strconv.Atoi(s)
							}
						}
					}
					for _, o := range ops {
						in.Ops = append(in.Ops, o)
						out.Res = append(out.Res, execOp(tx, o))
					}
					if writable && part == "" {
						o := Op{K: "Put", B: shardBucket(shard), Key: []byte("seq"), Val: []byte(strconv.Itoa(seqVal + 1))}
						in.Ops = append(in.Ops, o)
						out.Res = append(out.Res, execOp(tx, o))
					}
					if failFn {
						return fnError{}
					}
					return nil
				}
				var err error
				func() {
					defer func() {
						if p := recover(); p != nil {
							panicS = fmt.Sprintf("panic outside fn: %v", p)
						}
					}()
					if writable {
						err = db.Update(fn)
					} else {
						err = db.View(fn)
					}
				}()
				ret := h.now()
				out.Committed = writable && err == nil
				if panicS != "" {
					mu.Lock()
					res.panics = append(res.panics, panicS)
					mu.Unlock()
					// the operation may or may not have taken effect: keep it open until the end of the history
					ret = 1 << 62
				}
				h.add(porcupine.Operation{ClientId: g, Input: in, Call: call, Output: out, Return: ret})
				atomic.AddInt64(&txCount, 1)
				if part != "" {
					atomic.AddInt64(&res.pkeyOps, 1)
				}
				// snapshot stability of read-only transactions
				if !writable {
					half := len(out.Res) / 2
					for i := 0; i < half; i++ {
						if out.Res[i].String() != out.Res[i+half].String() {
							mu.Lock()
							res.snapshotBad = append(res.snapshotBad, fmt.Sprintf("%s returned %s and then %s inside one read-only transaction", in.Ops[i].String(), out.Res[i].String(), out.Res[i+half].String()))
							mu.Unlock()
						}
					}
				}
				if out.Committed && part == "" {
					mu.Lock()
					k := strconv.Itoa(shard)
					if seqSeen[di][k] == nil {
						seqSeen[di][k] = map[int][2]int64{}
					}
					if prev, dup := seqSeen[di][k][seqVal]; dup {
						res.seqBad = append(res.seqBad, fmt.Sprintf("two committed transactions of db%d shard %d both read sequence value %d (lost update): intervals %v and [%d,%d]", di, shard, seqVal, prev, call, ret))
					}
					seqSeen[di][k][seqVal] = [2]int64{call, ret}
					mu.Unlock()
				}
			}
		}(g)
	}
	var mwg sync.WaitGroup
	for m := 0; m < cc.Merge; m++ {
		mwg.Add(1)
		go func(m int) {
			defer mwg.Done()
			for atomic.LoadInt32(&stop) == 0 {
				for di, db := range dbs {
					if cc.DBs[di].Mode == 2 {
						continue
					}
					func() {
						defer func() {
							if p := recover(); p != nil {
								mu.Lock()
								res.panics = append(res.panics, fmt.Sprintf("Merge panicked: %v", p))
								mu.Unlock()
							}
						}()
						err := db.Merge()
						atomic.AddInt64(&res.merges, 1)
						if err != nil {
							atomic.AddInt64(&res.mergeErrs, 1)
						}
					}()
				}
				time.Sleep(200 * time.Microsecond)
			}
		}(m)
	}
	wg.Wait()
	atomic.StoreInt32(&stop, 1)
	mwg.Wait()
	res.txs = txCount
	res.yields = atomic.LoadInt64(&y.count)
	res.hist = h.ops

	// sequence order must be consistent with real time: a transaction that returned before another began read a smaller value
	for di := range seqSeen {
		for k, mm := range seqSeen[di] {
			var vals []int
			for v := range mm {
				vals = append(vals, v)
			}
			sort.Ints(vals)
			for i := 1; i < len(vals); i++ {
				a, b := mm[vals[i-1]], mm[vals[i]]
				if b[1] < a[0] { // the later sequence number finished before the earlier one started
					res.seqBad = append(res.seqBad, fmt.Sprintf("db%d shard %s: sequence %d (interval %v) is ordered before %d (interval %v) although it ran entirely later", di, k, vals[i-1], a, vals[i], b))
				}
			}
			// commit order fingerprint
			var ord []string
			type iv struct {
				v int
				c int64
			}
			var ivs []iv
			for v, t := range mm {
				ivs = append(ivs, iv{v, t[0]})
			}
			sort.Slice(ivs, func(i, j int) bool { return ivs[i].c < ivs[j].c })
			for _, x := range ivs {
				ord = append(ord, strconv.Itoa(x.v))
			}
			res.orders[fmt.Sprintf("%d/%s:", di, k)+strings.Join(ord, ",")] = true
		}
	}
	// overlapping pairs
	ops := append([]porcupine.Operation{}, h.ops...)
	sort.Slice(ops, func(i, j int) bool { return ops[i].Call < ops[j].Call })
	for i := range ops {
		for j := i + 1; j < len(ops) && ops[j].Call <= ops[i].Return; j++ {
			res.overlaps++
		}
	}
	// final contents must equal the model after some linearization: one read-only transaction per shard reads
	// everything after all workers have returned and is appended to the history as an ordinary operation, so the
	// serializability checker itself decides whether the final state is the result of the serial order it found.
	// The same reads are repeated after Close + Open (same options): what was committed under concurrency (and
	// under concurrent Merge) must also be what a reopen shows.
	nutsdb.VerifSetYieldHook(nil)
	finalReads := func(di int, db *nutsdb.DB, client int) {
		ds := cc.DBs[di].Mode == 0
		for shard := 0; shard < cc.Shards; shard++ {
			b := shardBucket(shard)
			ops := []Op{{K: "Get", B: b, Key: []byte("k1")}, {K: "Get", B: b, Key: []byte("k2")}, {K: "Get", B: b, Key: []byte("k3")}, {K: "Get", B: b, Key: []byte("seq")},
				{K: "GetAll", B: b}, {K: "PrefixScan", B: b, Key: []byte("k"), I: 0, J: -1}}
			if ds {
				ops = append(ops, Op{K: "SMembers", B: b, Key: []byte("s")})
				if !cc.KVSetsOnly {
					ops = append(ops, Op{K: "LRange", B: b, Key: []byte("l"), I: 0, J: -1}, Op{K: "ZRangeByRank", B: b, I: 1, J: -1})
				}
			}
			in := concIn{DB: di, Shard: shard, Writable: false, Ops: ops}
			out := concOut{}
			call := h.now()
			var panicS string
			func() {
				defer func() {
					if p := recover(); p != nil {
						panicS = fmt.Sprint(p)
					}
				}()
				db.View(func(tx *nutsdb.Tx) error {
					for _, o := range ops {
						out.Res = append(out.Res, execOp(tx, o))
					}
					return nil
				})
			}()
			if panicS != "" {
				res.panics = append(res.panics, "final read: "+panicS)
				continue
			}
			h.add(porcupine.Operation{ClientId: client, Input: in, Call: call, Output: out, Return: h.now()})
			res.finalReads++
		}
		if cc.PKeys > 0 {
			// every key of the many-keys bucket, read in one transaction; recorded as one operation per key
			var rs []Res
			call := h.now()
			func() {
				defer func() {
					if p := recover(); p != nil {
						res.panics = append(res.panics, fmt.Sprintf("final read of the many-keys bucket: %v", p))
						rs = nil
					}
				}()
				db.View(func(tx *nutsdb.Tx) error {
					for i := 0; i < cc.PKeys; i++ {
						rs = append(rs, execOp(tx, Op{K: "Get", B: "pb", Key: pkey(i)}))
					}
					return nil
				})
			}()
			ret := h.now()
			for i, r := range rs {
				o := Op{K: "Get", B: "pb", Key: pkey(i)}
				h.add(porcupine.Operation{ClientId: client, Input: concIn{DB: di, Part: string(o.Key), Ops: []Op{o}}, Call: call, Output: concOut{Res: []Res{r}}, Return: ret})
			}
			res.finalReads++
		}
	}
	for di, db := range dbs {
		finalReads(di, db, cc.Goroutines)
		var cerr error
		func() {
			defer func() {
				if p := recover(); p != nil {
					cerr = fmt.Errorf("PANIC %v", p)
				}
			}()
			cerr = db.Close()
		}()
		if cerr != nil {
			res.finalBad = append(res.finalBad, fmt.Sprintf("close-failed|Close of db%d after the workload failed: %v", di, cerr))
			continue
		}
		db2, err := openNoPanic(cc.DBs[di].Options(c.Dir(fmt.Sprintf("db%d", di))))
		if err != nil {
			res.finalBad = append(res.finalBad, fmt.Sprintf("reopen-failed:%s|Open of db%d (%s) after the concurrent workload and a clean Close failed: %v", errClass(err.Error()), di, cc.DBs[di], err))
			continue
		}
		finalReads(di, db2, cc.Goroutines+1)
		func() {
			defer func() { recover() }()
			db2.Close()
		}()
	}
	res.hist = h.ops
	return res
}

// checkLinearizable runs porcupine over the recorded history.
func checkLinearizable(c *CaseCtx, res *concResult, class string) {
	if len(res.hist) == 0 {
		return
	}
	t0 := time.Now()
	result, info := porcupine.CheckOperationsVerbose(txModel(), res.hist, 60*time.Second)
	c.Stat("porcupine_ms", time.Since(t0).Milliseconds())
	switch result {
	case porcupine.Ok:
		c.Stat("porcupine_ok", 1)
	case porcupine.Unknown:
		c.Stat("porcupine_unknown", 1)
		c.Inconclusive("linearizability check timed out")
	case porcupine.Illegal:
		c.Stat("porcupine_illegal", 1)
		// describe the partition that failed: its operations in call order
		m := txModel()
		detail := "no serial order consistent with real time explains the recorded results.\n"
		for _, part := range m.Partition(res.hist) {
			if r2 := porcupine.CheckOperationsTimeout(m, part, 30*time.Second); r2 == porcupine.Illegal {
				sort.Slice(part, func(i, j int) bool { return part[i].Call < part[j].Call })
				n := len(part)
				detail += fmt.Sprintf("non-linearizable partition (%d transactions), in call order:\n", n)
				for i, op := range part {
					if i > 60 {
						detail += "  ...\n"
						break
					}
					detail += fmt.Sprintf("  [%d,%d] client %d %s\n", op.Call, op.Return, op.ClientId, m.DescribeOperation(op.Input, op.Output))
				}
				break
			}
		}
		_ = info
		c.Violate("not-linearizable", class, firstN(detail, 6000))
	}
}

// ---------------------------------------------------------------- race log parsing (driver side)

var raceFrameRe = regexp.MustCompile(`^\s+(\S+)\(`)

type raceReport struct {
	sig  string
	text string
}

// parseRaceLogs reads the race detector's log files and returns de-duplicated reports.
// signature = outermost nutsdb entry points of the two stacks + the two racing functions (line numbers stripped).
func parseRaceLogs(dir string) (reports []raceReport, total int) {
	files, _ := filepath.Glob(filepath.Join(dir, "race*"))
	seen := map[string]bool{}
	for _, f := range files {
		b, err := ioutil.ReadFile(f)
		if err != nil {
			continue
		}
		blocks := strings.Split(string(b), "==================")
		for _, blk := range blocks {
			if !strings.Contains(blk, "WARNING: DATA RACE") {
				continue
			}
			total++
			sig := raceSignature(blk)
			if !seen[sig] {
				seen[sig] = true
				reports = append(reports, raceReport{sig: sig, text: firstN(strings.TrimSpace(blk), 5000)})
			}
		}
	}
	sort.Slice(reports, func(i, j int) bool { return reports[i].sig < reports[j].sig })
	return
}

func raceSignature(blk string) string {
	// split into stacks: sections start with "Read at", "Write at", "Previous read at", "Previous write at"
	var stacks [][]string
	var cur []string
	inAccess := false
	for _, ln := range strings.Split(blk, "\n") {
		t := strings.TrimSpace(ln)
		if strings.HasPrefix(t, "Read at") || strings.HasPrefix(t, "Write at") || strings.HasPrefix(t, "Previous read at") || strings.HasPrefix(t, "Previous write at") ||
			strings.HasPrefix(t, "Atomic") || strings.HasPrefix(t, "Previous atomic") {
			if cur != nil {
				stacks = append(stacks, cur)
			}
			cur = []string{}
			inAccess = true
			continue
		}
		if strings.HasPrefix(t, "Goroutine ") {
			if cur != nil {
				stacks = append(stacks, cur)
				cur = nil
			}
			inAccess = false
			continue
		}
		if inAccess && cur != nil {
			if m := raceFrameRe.FindStringSubmatch(ln); m != nil {
				cur = append(cur, m[1])
			}
		}
	}
	if cur != nil {
		stacks = append(stacks, cur)
	}
	var parts []string
	for _, st := range stacks {
		inner, outer := "?", "?"
		for _, fn := range st {
			if strings.Contains(fn, "xujiajun/nutsdb") && !strings.Contains(fn, "Verif") && !strings.Contains(fn, "verif") {
				short := fn[strings.LastIndex(fn, "/")+1:]
				if inner == "?" {
					inner = short
				}
				outer = short
			}
		}
		if inner == "?" && len(st) > 0 {
			inner = st[0][strings.LastIndex(st[0], "/")+1:]
			outer = "(harness)"
		}
		parts = append(parts, outer+">"+inner)
	}
	sort.Strings(parts)
	return strings.Join(parts, " | ")
}

func racePost(class string) func(d *driverState) {
	return func(d *driverState) {
		reports, total := parseRaceLogs(d.workDir)
		d.agg["race_report_blocks"] = int64(total)
		d.agg["race_reports_distinct"] = int64(len(reports))
		var sigs []string
		for _, rp := range reports {
			sigs = append(sigs, rp.sig)
			harnessOnly := !strings.Contains(rp.text, "xujiajun/nutsdb.")
			cls := class
			if harnessOnly {
				cls = "harness-race"
			}
			d.results = append(d.results, CaseResult{Case: -1, Verdict: "violated", FP: "race-" + rp.sig,
				Viol:    []Violation{{Sig: d.ck.ID + "/" + cls + "/race:" + rp.sig, Class: cls, Detail: rp.text}},
				History: []string{"# data race reported by the Go race detector while the workload ran"}})
		}
		d.extra["race_signatures"] = sigs
	}
}

// ---------------------------------------------------------------- helpers

func removeAllQuiet(p string) { os.RemoveAll(p) }
