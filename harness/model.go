package main

import (
	"bytes"
	"math"
	"regexp"
	"sort"
	"strconv"
	"strings"
	"time"
)

// Reference model of the documented semantics. Shares no code with nutsdb.

type kvItem struct {
	val []byte
	ttl uint32
	ts  uint64
	del bool
}

type zItem struct {
	score float64
	val   []byte
}

type Model struct {
	KV map[string]map[string]*kvItem
	L  map[string]map[string][][]byte
	S  map[string]map[string]map[string]bool
	Z  map[string]map[string]zItem
}

func NewModel() *Model {
	return &Model{
		KV: map[string]map[string]*kvItem{},
		L:  map[string]map[string][][]byte{},
		S:  map[string]map[string]map[string]bool{},
		Z:  map[string]map[string]zItem{},
	}
}

func (m *Model) Clone() *Model {
	c := NewModel()
	for b, mm := range m.KV {
		c.KV[b] = map[string]*kvItem{}
		for k, it := range mm {
			cp := *it
			c.KV[b][k] = &cp
		}
	}
	for b, mm := range m.L {
		c.L[b] = map[string][][]byte{}
		for k, l := range mm {
			c.L[b][k] = append([][]byte{}, l...)
		}
	}
	for b, mm := range m.S {
		c.S[b] = map[string]map[string]bool{}
		for k, s := range mm {
			ns := map[string]bool{}
			for x := range s {
				ns[x] = true
			}
			c.S[b][k] = ns
		}
	}
	for b, mm := range m.Z {
		c.Z[b] = map[string]zItem{}
		for k, z := range mm {
			c.Z[b][k] = z
		}
	}
	return c
}

func modelNow() uint64 { return uint64(time.Now().Unix()) }

func (it *kvItem) live() bool {
	if it == nil || it.del {
		return false
	}
	return it.ttl == 0 || modelNow() < it.ts+uint64(it.ttl)
}

func (m *Model) livePairs(b string) []kvPair {
	var ks []string
	for k, it := range m.KV[b] {
		if it.live() {
			ks = append(ks, k)
		}
	}
	sort.Strings(ks)
	out := make([]kvPair, len(ks))
	for i, k := range ks {
		out[i] = kvPair{[]byte(k), m.KV[b][k].val}
	}
	return out
}

func listOrErr(ps []kvPair) Exp {
	if len(ps) == 0 {
		return Exp{V: "[]", ErrOK: true}
	}
	return Exp{V: pairsStr(ps)}
}

func normRange(n, s, e int) (int, int, bool) {
	if s < 0 {
		s += n
		if s < 0 {
			s = 0
		}
	}
	if e < 0 {
		e += n
	}
	if e >= n {
		e = n - 1
	}
	if s > e || s >= n || e < 0 {
		return 0, 0, false
	}
	return s, e, true
}

func lremModel(items [][]byte, count int, val []byte) ([][]byte, int) {
	limit := count
	if count < 0 {
		if count == math.MinInt64 {
			limit = math.MaxInt64
		} else {
			limit = -count
		}
	}
	removed := 0
	out := make([][]byte, 0, len(items))
	if count >= 0 {
		for _, it := range items {
			if bytes.Equal(it, val) && (count == 0 || removed < limit) {
				removed++
				continue
			}
			out = append(out, it)
		}
		return out, removed
	}
	keep := make([]bool, len(items))
	for i := len(items) - 1; i >= 0; i-- {
		if bytes.Equal(items[i], val) && removed < limit {
			removed++
		} else {
			keep[i] = true
		}
	}
	for i, it := range items {
		if keep[i] {
			out = append(out, it)
		}
	}
	return out, removed
}

func (m *Model) zsorted(b string) []zNode {
	var out []zNode
	for k, z := range m.Z[b] {
		out = append(out, zNode{k, z.score, z.val})
	}
	sort.Slice(out, func(i, j int) bool {
		if out[i].S != out[j].S {
			return out[i].S < out[j].S
		}
		return out[i].K < out[j].K
	})
	return out
}

// rankRange implements the documented 1-based, negative-from-the-end, clamped rank window.
func rankRange(n, start, end int) (lo, hi int, rev bool) {
	if start < 0 {
		start = n + start + 1
	}
	if end < 0 {
		end = n + end + 1
	}
	if start <= 0 {
		start = 1
	}
	if end <= 0 {
		end = 1
	}
	if start > end {
		start, end, rev = end, start, true
	}
	if end > n {
		end = n
	}
	return start, end, rev
}

func zByRank(ns []zNode, start, end int) []zNode {
	lo, hi, rev := rankRange(len(ns), start, end)
	var out []zNode
	for r := lo; r <= hi; r++ {
		out = append(out, ns[r-1])
	}
	if rev {
		for i, j := 0, len(out)-1; i < j; i, j = i+1, j-1 {
			out[i], out[j] = out[j], out[i]
		}
	}
	return out
}

func zByScore(ns []zNode, o Op) []zNode {
	start, end := o.F, o.F2
	exS, exE := o.HasOpt && o.ExS, o.HasOpt && o.ExE
	limit := math.MaxInt64
	if o.HasOpt && o.Limit > 0 {
		limit = o.Limit
	}
	rev := start > end
	lo, hi, exLo, exHi := start, end, exS, exE
	if rev {
		lo, hi, exLo, exHi = end, start, exE, exS
	}
	var sel []zNode
	for _, n := range ns {
		if n.S < lo || (exLo && n.S == lo) {
			continue
		}
		if n.S > hi || (exHi && n.S == hi) {
			continue
		}
		sel = append(sel, n)
	}
	if rev {
		for i, j := 0, len(sel)-1; i < j; i, j = i+1, j-1 {
			sel[i], sel[j] = sel[j], sel[i]
		}
	}
	if len(sel) > limit {
		sel = sel[:limit]
	}
	return sel
}

func setSorted(s map[string]bool) string {
	ss := make([]string, 0, len(s))
	for x := range s {
		ss = append(ss, q([]byte(x)))
	}
	sort.Strings(ss)
	return "[" + strings.Join(ss, ",") + "]"
}

func hasSep(b []byte) bool { return bytes.Contains(b, []byte("|")) }

// Expect computes what the documented semantics allow for op in the current state.
// writable tells whether the enclosing transaction may write.
func (m *Model) Expect(o Op, writable bool) Exp {
	if !writable && !readOnlyKinds[o.K] {
		// a mutator in a read-only transaction: must fail, or be a no-op call with nothing to write
		switch o.K {
		case "RPush", "LPush", "SAdd", "SRem":
			if len(o.Vals) == 0 {
				return Exp{ErrOK: true}
			}
		case "SMove1", "SMove2":
			// moving a non-member is the answer "false" with nothing to write: no property asks a read-only
			// transaction to turn that into an error (it must only have no effect)
			if !m.S[o.B][string(o.Key)][string(o.Val)] {
				return Exp{V: "false", ErrOK: true}
			}
		}
		return Exp{Err: true}
	}
	switch o.K {
	case "Put", "PutTS", "Delete":
		if len(o.Key) == 0 {
			return Exp{Err: true}
		}
		return Exp{}
	case "Get":
		if it := m.KV[o.B][string(o.Key)]; it.live() {
			return Exp{V: q(it.val)}
		}
		return Exp{Err: true}
	case "GetAll":
		return listOrErr(m.livePairs(o.B))
	case "RangeScan":
		var out []kvPair
		for _, p := range m.livePairs(o.B) {
			if bytes.Compare(p.K, o.Key) >= 0 && bytes.Compare(p.K, o.Key2) <= 0 {
				out = append(out, p)
			}
		}
		return listOrErr(out)
	case "PrefixScan", "PrefixSearchScan":
		var rgx *regexp.Regexp
		if o.K == "PrefixSearchScan" {
			var err error
			if rgx, err = regexp.Compile(o.Re); err != nil {
				return Exp{Err: true}
			}
		}
		var out []kvPair
		for _, p := range m.livePairs(o.B) {
			if !bytes.HasPrefix(p.K, o.Key) {
				continue
			}
			if rgx != nil && !rgx.Match(bytes.TrimPrefix(p.K, o.Key)) {
				continue
			}
			out = append(out, p)
		}
		if o.I > 0 {
			if o.I >= len(out) {
				out = nil
			} else {
				out = out[o.I:]
			}
		}
		if o.J > 0 && len(out) > o.J {
			out = out[:o.J]
		}
		return listOrErr(out)

	// ---- lists
	case "RPush", "LPush":
		if hasSep(o.Key) {
			return Exp{Err: true}
		}
		if len(o.Vals) == 0 {
			return Exp{ErrOK: true}
		}
		if len(o.Key) == 0 {
			return Exp{Err: true}
		}
		return Exp{}
	case "RPop", "RPeek", "LPop", "LPeek":
		l := m.L[o.B][string(o.Key)]
		if len(l) == 0 {
			return Exp{Err: true}
		}
		if o.K[0] == 'R' {
			return Exp{V: q(l[len(l)-1])}
		}
		return Exp{V: q(l[0])}
	case "LSize":
		l := m.L[o.B][string(o.Key)]
		return Exp{V: strconv.Itoa(len(l)), ErrOK: len(l) == 0}
	case "LRange":
		l := m.L[o.B][string(o.Key)]
		s, e, ok := normRange(len(l), o.I, o.J)
		if !ok {
			return Exp{V: "[]", ErrOK: true}
		}
		return Exp{V: qs(l[s : e+1])}
	case "LRem":
		l, exists := m.L[o.B][string(o.Key)]
		_, removed := lremModel(l, o.I, o.Val)
		e := Exp{V: strconv.Itoa(removed)}
		n := len(l)
		if !exists || n == 0 || o.I > n || o.I < -n {
			e.ErrOK = true
		}
		return e
	case "LSet":
		l, exists := m.L[o.B][string(o.Key)]
		n := len(l)
		if !exists || o.I >= n || o.I < -n {
			return Exp{Err: true}
		}
		return Exp{ErrOK: o.I < 0}
	case "LTrim":
		l, exists := m.L[o.B][string(o.Key)]
		if !exists {
			return Exp{ErrOK: true}
		}
		_, _, ok := normRange(len(l), o.I, o.J)
		return Exp{ErrOK: !ok}

	// ---- sets
	case "SAdd", "SRem":
		if len(o.Vals) == 0 {
			return Exp{ErrOK: true}
		}
		if len(o.Key) == 0 {
			return Exp{Err: true}
		}
		return Exp{}
	case "SPop":
		s := m.S[o.B][string(o.Key)]
		if len(s) == 0 {
			return Exp{V: "nil", ErrOK: true}
		}
		any := map[string]bool{}
		for x := range s {
			any[q([]byte(x))] = true
		}
		return Exp{PopAny: any}
	case "SIsMember":
		if m.S[o.B][string(o.Key)][string(o.Val)] {
			return Exp{V: "true"}
		}
		return Exp{V: "false", ErrOK: true}
	case "SAreMembers":
		s, exists := m.S[o.B][string(o.Key)]
		all := true
		for _, v := range o.Vals {
			if !s[string(v)] {
				all = false
			}
		}
		if all {
			return Exp{V: "true", ErrOK: !exists || len(s) == 0}
		}
		return Exp{V: "false", ErrOK: true}
	case "SMembers":
		s := m.S[o.B][string(o.Key)]
		return Exp{V: setSorted(s), ErrOK: len(s) == 0}
	case "SCard":
		s := m.S[o.B][string(o.Key)]
		return Exp{V: strconv.Itoa(len(s)), ErrOK: len(s) == 0}
	case "SHasKey":
		s, exists := m.S[o.B][string(o.Key)]
		if len(s) > 0 {
			return Exp{V: "true"}
		}
		if exists {
			return Exp{V: "true", Alts: []string{"false"}, ErrOK: true}
		}
		return Exp{V: "false", ErrOK: true}
	case "SDiff1", "SDiff2", "SUnion1", "SUnion2":
		b2 := o.B
		if o.K[len(o.K)-1] == '2' {
			b2 = o.B2
		}
		s1, s2 := m.S[o.B][string(o.Key)], m.S[b2][string(o.Key2)]
		out := map[string]bool{}
		for x := range s1 {
			if strings.HasPrefix(o.K, "SUnion") || !s2[x] {
				out[x] = true
			}
		}
		if strings.HasPrefix(o.K, "SUnion") {
			for x := range s2 {
				out[x] = true
			}
		}
		return Exp{V: setSorted(out), ErrOK: len(s1) == 0 || len(s2) == 0}
	case "SMove1", "SMove2":
		b2 := o.B
		if o.K == "SMove2" {
			b2 = o.B2
		}
		dstEmpty := len(m.S[b2][string(o.Key2)]) == 0
		if m.S[o.B][string(o.Key)][string(o.Val)] {
			// moving into a set that does not exist: Redis creates it, nutsdb documents an error.  A set
			// emptied by SRem/SPop/SMove and a set that was never created are the same observation
			// (DESIGN 1.3; SHasKey above): nutsdb keeps the emptied key in memory but not across a
			// Merge + reopen, so either answer is accepted for an empty destination.
			return Exp{V: "true", ErrOK: dstEmpty}
		}
		return Exp{V: "false", ErrOK: true}

	// ---- sorted sets
	case "ZAdd":
		if hasSep(o.Key) {
			return Exp{Err: true}
		}
		return Exp{}
	case "ZRem":
		bucketExists := len(m.Z[o.B]) > 0 // an emptied sorted set and a missing one are the same observation (a Merge + reopen drops the bucket)
		return Exp{ErrOK: !bucketExists || len(o.Key) == 0}
	case "ZRemRangeByRank":
		bucketExists := len(m.Z[o.B]) > 0 // an emptied sorted set and a missing one are the same observation (a Merge + reopen drops the bucket)
		return Exp{ErrOK: !bucketExists}
	case "ZPopMax", "ZPeekMax", "ZPopMin", "ZPeekMin":
		ns := m.zsorted(o.B)
		if len(ns) == 0 {
			return Exp{V: "nil", ErrOK: true}
		}
		if strings.HasSuffix(o.K, "Max") {
			return Exp{V: zOne(&ns[len(ns)-1])}
		}
		return Exp{V: zOne(&ns[0])}
	case "ZRangeByScore":
		bucketExists := len(m.Z[o.B]) > 0 // an emptied sorted set and a missing one are the same observation (a Merge + reopen drops the bucket)
		return Exp{V: zStr(zByScore(m.zsorted(o.B), o)), ErrOK: !bucketExists}
	case "ZCount":
		bucketExists := len(m.Z[o.B]) > 0 // an emptied sorted set and a missing one are the same observation (a Merge + reopen drops the bucket)
		return Exp{V: strconv.Itoa(len(zByScore(m.zsorted(o.B), o))), ErrOK: !bucketExists}
	case "ZRangeByRank":
		bucketExists := len(m.Z[o.B]) > 0 // an emptied sorted set and a missing one are the same observation (a Merge + reopen drops the bucket)
		return Exp{V: zStr(zByRank(m.zsorted(o.B), o.I, o.J)), ErrOK: !bucketExists}
	case "ZRank", "ZRevRank":
		bucketExists := len(m.Z[o.B]) > 0 // an emptied sorted set and a missing one are the same observation (a Merge + reopen drops the bucket)
		ns := m.zsorted(o.B)
		for i, n := range ns {
			if n.K == string(o.Key) {
				if o.K == "ZRank" {
					return Exp{V: strconv.Itoa(i + 1)}
				}
				return Exp{V: strconv.Itoa(len(ns) - i)}
			}
		}
		_ = bucketExists
		return Exp{V: "0", ErrOK: true}
	case "ZScore":
		if z, ok := m.Z[o.B][string(o.Key)]; ok {
			return Exp{V: fl(z.score)}
		}
		return Exp{Err: true}
	case "ZGetByKey":
		if z, ok := m.Z[o.B][string(o.Key)]; ok {
			return Exp{V: zOne(&zNode{string(o.Key), z.score, z.val})}
		}
		return Exp{Err: true}
	case "ZCard":
		bucketExists := len(m.Z[o.B]) > 0 // an emptied sorted set and a missing one are the same observation (a Merge + reopen drops the bucket)
		return Exp{V: strconv.Itoa(len(m.Z[o.B])), ErrOK: !bucketExists || len(m.Z[o.B]) == 0}
	case "ZMembers":
		bucketExists := len(m.Z[o.B]) > 0 // an emptied sorted set and a missing one are the same observation (a Merge + reopen drops the bucket)
		ns := m.zsorted(o.B)
		sort.Slice(ns, func(i, j int) bool { return ns[i].K < ns[j].K })
		return Exp{V: zStr(ns), ErrOK: !bucketExists || len(ns) == 0}
	}
	return Exp{ErrOK: true}
}

// Apply updates the model for a call whose real outcome r was accepted by Expect.
// A call that failed changes nothing.
func (m *Model) Apply(o Op, r Res) {
	if r.Err || r.Panic != "" || readOnlyKinds[o.K] {
		return
	}
	k := string(o.Key)
	switch o.K {
	case "Put", "PutTS", "Delete":
		if m.KV[o.B] == nil {
			m.KV[o.B] = map[string]*kvItem{}
		}
		switch o.K {
		case "Put":
			m.KV[o.B][k] = &kvItem{val: o.Val, ttl: o.TTL, ts: modelNow()}
		case "PutTS":
			m.KV[o.B][k] = &kvItem{val: o.Val, ttl: o.TTL, ts: o.TS}
		case "Delete":
			m.KV[o.B][k] = &kvItem{del: true}
		}
	case "RPush", "LPush":
		if len(o.Vals) == 0 {
			return
		}
		if m.L[o.B] == nil {
			m.L[o.B] = map[string][][]byte{}
		}
		l := m.L[o.B][k]
		if o.K == "RPush" {
			l = append(append([][]byte{}, l...), o.Vals...)
		} else {
			nl := make([][]byte, 0, len(l)+len(o.Vals))
			for i := len(o.Vals) - 1; i >= 0; i-- {
				nl = append(nl, o.Vals[i])
			}
			l = append(nl, l...)
		}
		m.L[o.B][k] = l
	case "RPop":
		l := m.L[o.B][k]
		if len(l) > 0 {
			m.L[o.B][k] = append([][]byte{}, l[:len(l)-1]...)
		}
	case "LPop":
		l := m.L[o.B][k]
		if len(l) > 0 {
			m.L[o.B][k] = append([][]byte{}, l[1:]...)
		}
	case "LRem":
		if l, ok := m.L[o.B][k]; ok {
			nl, _ := lremModel(l, o.I, o.Val)
			m.L[o.B][k] = nl
		}
	case "LSet":
		l := m.L[o.B][k]
		i := o.I
		if i < 0 {
			i += len(l)
		}
		if i >= 0 && i < len(l) {
			nl := append([][]byte{}, l...)
			nl[i] = o.Val
			m.L[o.B][k] = nl
		}
	case "LTrim":
		if l, ok := m.L[o.B][k]; ok {
			s, e, ok := normRange(len(l), o.I, o.J)
			if !ok {
				m.L[o.B][k] = [][]byte{}
			} else {
				m.L[o.B][k] = append([][]byte{}, l[s:e+1]...)
			}
		}
	case "SAdd":
		if len(o.Vals) == 0 {
			return
		}
		m.setFor(o.B, k)
		for _, v := range o.Vals {
			m.S[o.B][k][string(v)] = true
		}
	case "SRem":
		for _, v := range o.Vals {
			delete(m.S[o.B][k], string(v))
		}
	case "SPop":
		if r.V != "nil" {
			if s, err := strconv.Unquote(r.V); err == nil {
				delete(m.S[o.B][k], s)
			}
		}
	case "SMove1", "SMove2":
		b2 := o.B
		if o.K == "SMove2" {
			b2 = o.B2
		}
		if r.V == "true" && m.S[o.B][k][string(o.Val)] {
			delete(m.S[o.B][k], string(o.Val))
			m.setFor(b2, string(o.Key2))
			m.S[b2][string(o.Key2)][string(o.Val)] = true
		}
	case "ZAdd":
		if m.Z[o.B] == nil {
			m.Z[o.B] = map[string]zItem{}
		}
		m.Z[o.B][k] = zItem{o.F, o.Val}
	case "ZRem":
		delete(m.Z[o.B], k)
	case "ZRemRangeByRank":
		for _, n := range zByRank(m.zsorted(o.B), o.I, o.J) {
			delete(m.Z[o.B], n.K)
		}
	case "ZPopMax", "ZPopMin":
		ns := m.zsorted(o.B)
		if len(ns) > 0 {
			if o.K == "ZPopMax" {
				delete(m.Z[o.B], ns[len(ns)-1].K)
			} else {
				delete(m.Z[o.B], ns[0].K)
			}
		}
	}
}

func (m *Model) setFor(b, k string) {
	if m.S[b] == nil {
		m.S[b] = map[string]map[string]bool{}
	}
	if m.S[b][k] == nil {
		m.S[b][k] = map[string]bool{}
	}
}

// ApplyCommitTime is the alternative model of the known finding C13/KF: a logged operation that is no
// longer valid when the transaction is applied is silently skipped (instead of having been refused,
// or applied with Redis semantics, when it was called).
func (m *Model) ApplyCommitTime(o Op, r Res) {
	if r.Err || r.Panic != "" {
		return
	}
	k := string(o.Key)
	switch o.K {
	case "LTrim":
		if l, ok := m.L[o.B][k]; ok {
			if _, _, ok := normRange(len(l), o.I, o.J); !ok {
				return
			}
		}
	case "LRem":
		if o.I > len(m.L[o.B][k]) {
			return
		}
	case "LSet":
		if o.I < 0 {
			return
		}
	case "SMove1", "SMove2":
		// a move that was accepted (against the committed state) is logged as two independent records, "remove from
		// the source" and "add to the destination": at Commit the removal is skipped if the member is gone by
		// then, the addition is applied regardless
		if r.V == "true" {
			b2 := o.B
			if o.K == "SMove2" {
				b2 = o.B2
			}
			delete(m.S[o.B][k], string(o.Val))
			m.setFor(b2, string(o.Key2))
			m.S[b2][string(o.Key2)][string(o.Val)] = true
		}
		return
	}
	m.Apply(o, r)
}
