package main

import (
	"fmt"
	"os"
)

type c19Step struct {
	Reopen bool
	Merge  bool // RAM index modes only (sparse mode does not support it): Merge must be invisible
	Tx     TxSpec
}

// runHistoryPlain runs a pre-generated history on one configuration and returns one line per call
// plus the full observation after a final reopen.
func runHistoryPlain(c *CaseCtx, cfg Cfg, dir string, steps []c19Step, u *Universe) (lines []string, final []string, failure string) {
	db, err := openNoPanic(cfg.Options(dir))
	if err != nil {
		return nil, nil, "open failed: " + err.Error()
	}
	for si, st := range steps {
		if st.Reopen {
			if err := db.Close(); err != nil {
				return lines, nil, "close failed: " + err.Error()
			}
			if db, err = openNoPanic(cfg.Options(dir)); err != nil {
				return lines, nil, fmt.Sprintf("reopen at step %d failed: %v", si, err)
			}
			lines = append(lines, "reopen")
			continue
		}
		if st.Merge {
			if cfg.Mode != 2 {
				func() {
					defer func() {
						if p := recover(); p != nil {
							failure = fmt.Sprintf("Merge panicked at step %d: %v", si, p)
						}
					}()
					db.Merge() // its error (fewer than two files) depends on the configuration's file count only
				}()
				if failure != "" {
					return lines, nil, failure
				}
			}
			continue
		}
		out := execTx(db, st.Tx)
		if out.Panic != "" {
			return lines, nil, fmt.Sprintf("panic in step %d %s: %s", si, st.Tx.String(), out.Panic)
		}
		for j, o := range st.Tx.Ops {
			r := Res{Err: true}
			if j < len(out.Res) {
				r = out.Res[j]
			}
			// an empty result and an error are the same observation for the list-valued reads
			v := normObs(o.K, r.Err, r.V, r.Panic)
			lines = append(lines, fmt.Sprintf("step %d %s => %s", si, o.String(), v))
		}
		lines = append(lines, fmt.Sprintf("step %d commit-error=%v", si, out.Err != nil))
	}
	if err := db.Close(); err != nil {
		return lines, nil, "close failed: " + err.Error()
	}
	if db, err = openNoPanic(cfg.Options(dir)); err != nil {
		return lines, nil, "final reopen failed: " + err.Error()
	}
	final, err = obsReal(db, u)
	db.Close()
	if err != nil {
		return lines, nil, "final observation failed: " + err.Error()
	}
	return lines, final, ""
}

func runC19(c *CaseCtx) {
	r := c.Rng
	kvOnly := c.Case%2 == 0
	seg := int64(150 + r.Intn(500))
	manyTxPerSegment := kvOnly && c.Case%8 == 2
	if manyTxPerSegment {
		seg = int64(1200 + r.Intn(800)) // a dozen single-record transactions per segment, then transactions that rotate several times
	}
	nb := 2
	if kvOnly {
		nb = 1 // also run in sparse mode: single bucket
	}
	u := defaultUniverse(r, nb, 5+r.Intn(12), !kvOnly)
	steer := NewModel()
	g := &Gen{R: r, U: u, Cfg: Cfg{Seg: seg}, KV: true, List: !kvOnly, Set: !kvOnly, ZSet: !kvOnly, TTL: true, MaxOps: 5, BigVals: true, M: steer}
	var steps []c19Step
	n := 15 + r.Intn(tier(c.Tier, 25, 60))
	if manyTxPerSegment {
		g.MaxOps = 1
		g.BigVals = false // small records: the segment's transaction-id index grows beyond one node
		n += 25
	}
	for i := 0; i < n; i++ {
		x := r.Intn(100)
		var t TxSpec
		switch {
		case manyTxPerSegment && i > 12 && i%16 == 0:
			t = g.BulkKVTx(2 + r.Intn(2))
		case x < 6:
			steps = append(steps, c19Step{Reopen: true})
			c.Log("reopen")
			continue
		case x < 11 && kvOnly:
			if r.Intn(2) == 0 {
				// every record dead at the time of the Merge
				var ops []Op
				for _, k := range u.KVKeys {
					// only keys that were ever put (a tombstone for a key the bucket never held is itself a new key)
					if _, ever := steer.KV[u.Buckets[0]][string(k)]; ever {
						ops = append(ops, Op{K: "Delete", B: u.Buckets[0], Key: k})
					}
				}
				if len(ops) == 0 {
					continue
				}
				steps = append(steps, c19Step{Tx: TxSpec{Mode: "update", Ops: ops}})
				for _, o := range ops {
					steer.Apply(o, Res{})
				}
				c.Log("delete every key")
			}
			steps = append(steps, c19Step{Merge: true})
			c.Log("merge")
			// what is written right after the Merge is read back before any reopen
			k := g.pick(u.KVKeys)
			steps = append(steps, c19Step{Tx: TxSpec{Mode: "update", Ops: []Op{{K: "Put", B: u.Buckets[0], Key: k, Val: []byte("after-merge")}}}},
				c19Step{Tx: TxSpec{Mode: "view", Ops: []Op{{K: "Get", B: u.Buckets[0], Key: k}, {K: "GetAll", B: u.Buckets[0]}}}})
			steer.Apply(Op{K: "Put", B: u.Buckets[0], Key: k, Val: []byte("after-merge")}, Res{})
			c.Stat("merge_steps", 1)
			continue
		case x < 16 && kvOnly:
			t = g.BulkKVTx(2 + r.Intn(2)) // several rotations inside one Commit
		case x < 60:
			t = g.WriteTx(false)
		case x < 70:
			t = g.WriteTx(false)
			t.Mode = []string{"fnerr", "rollback", "manual"}[r.Intn(3)]
		case x < 75:
			t = g.WriteTx(false)
			t.Ops = append(t.Ops, Op{K: "Put", B: g.bucket(), Key: g.pick(u.KVKeys), Val: make([]byte, int(seg))})
		default:
			t = g.ReadTx(5)
		}
		// SPop picks a random member: its result legitimately differs between runs
		ops := t.Ops[:0]
		for _, o := range t.Ops {
			if o.K != "SPop" {
				ops = append(ops, o)
			}
		}
		t.Ops = ops
		if len(t.Ops) == 0 {
			continue
		}
		for _, o := range t.Ops { // steering only
			if t.Mode == "update" || t.Mode == "manual" {
				steer.Apply(o, Res{})
			}
		}
		steps = append(steps, c19Step{Tx: t})
		c.Log("%s", t.String())
	}
	var cfgs []Cfg
	modes := []int{0}
	if kvOnly {
		modes = []int{0, 1, 2}
	}
	for _, m := range modes {
		for rw := 0; rw < 2; rw++ {
			for srw := 0; srw < 2; srw++ {
				for sy := 0; sy < 2; sy++ {
					cfgs = append(cfgs, Cfg{Mode: m, RW: rw, StartRW: srw, Seg: seg, Sync: sy == 1})
				}
			}
		}
	}
	var refLines, refFinal []string
	var refCfg Cfg
	for ci, cfg := range cfgs {
		dir := c.Dir(fmt.Sprintf("cfg%d", ci))
		lines, final, fail := runHistoryPlain(c, cfg, dir, steps, u)
		os.RemoveAll(dir)
		c.Stat("configurations_run", 1)
		c.Stat("api_calls_compared", int64(len(lines)))
		class := "differential"
		if cfg.Mode == 2 {
			class += "-sparse"
		}
		if fail != "" {
			c.Violate("run-failed:"+errClass(fail), class, fmt.Sprintf("history failed under %s: %s", cfg, fail))
			continue
		}
		if ci == 0 {
			refLines, refFinal, refCfg = lines, final, cfg
			continue
		}
		if refLines == nil {
			continue
		}
		for k := range lines {
			if k >= len(refLines) || lines[k] != refLines[k] {
				ref := "(missing)"
				if k < len(refLines) {
					ref = refLines[k]
				}
				api := "?"
				var si int
				fmt.Sscanf(lines[k], "step %d %s", &si, &api)
				for j, ch := range api {
					if ch == '(' {
						api = api[:j]
						break
					}
				}
				c.Violate("call-differs:"+api, class, fmt.Sprintf("same history, different result:\n  %s: %s\n  %s: %s", cfg, lines[k], refCfg, ref))
				break
			}
		}
		if !sameObs(final, refFinal) {
			c.Violate("final-differs:"+firstDiffCall(final, refFinal), class, fmt.Sprintf("contents after reopen differ between %s (got) and %s (want):\n%s", cfg, refCfg, diffObs(final, refFinal)))
		}
		if c.Unexplained() >= 6 {
			break
		}
	}
	c.Stat("histories", 1)
	c.Nontrivial(len(steps) >= 10)
	if c.Case < 2 {
		c.Sample(map[string]interface{}{"segment_size": seg, "kv_only": kvOnly, "configurations": len(cfgs), "steps": len(steps), "first_steps": firstLines(c.hist, 4)})
	}
}

func init() {
	register(&Check{
		ID: "C19", Level: "exploration",
		NCases: func(t string) int { return tier(t, 64, 600) },
		Run:    runC19,
		Rule: "[also: drain steps delete exactly the keys ever put, then Merge, re-put, GetAll] case = one generated history (unconstrained write/read transactions incl. failing ones, reopen points, values that nearly fill a segment) executed under every combination RWMode x StartFileLoadingMode x SyncEnable, x {KeyVal, KeyOnly, sparse} for KV-only single-bucket histories (24 configurations) or KeyVal only for list/set/sorted-set histories (8 configurations); " +
			"every call's result (value or error class) and the full observation after a final reopen must be identical across configurations (no model; SPop excluded because it is random by design); non-trivial = >=10 steps; distinct by history hash",
		Assumptions: []string{"error texts are not compared, only error vs value"},
		Floor: func(t string, a map[string]int64) string {
			if a["configurations_run"] < 200 {
				return "too few configurations run"
			}
			return ""
		},
	})
}
