package main

import (
	"fmt"
	"time"

	"github.com/xujiajun/nutsdb"
)

func init() {
	register(&Check{
		ID: "C01", Level: "exploration",
		NCases: func(t string) int { return tier(t, 400, 8000) },
		Run:    runC01,
		Rule: "case = (storage configuration, seeded history of Put/PutWithTimestamp/Delete write transactions over 2-3 buckets with reopen points) run against the real DB and the ordered-map-with-TTL model; " +
			"every Get/GetAll/RangeScan/PrefixScan/PrefixSearchScan result is compared; 1 case in 16 is a large-geometry history (segments of 9-330 KB, >1000 live keys or values of 1-69 KB), 1 in 100 a real-time TTL scenario (expiry by the wall clock across another handle's Close, a Merge, a reopen); non-trivial = history had >=2 segment rotations, >=1 tombstone and >=1 expired key inside a compared scan; distinct = distinct hash of configuration+operation sequence",
		Assumptions: []string{"reference model encodes the documented KV/TTL semantics", "TTL cases of the generated histories are >=10^6 s away from the expiry boundary so no verdict depends on the wall clock; the real-time scenario (1 case in 100) only asserts that records whose deadline lay 1-2 s ahead are gone after >=4.2 s, which waiting longer cannot falsify", "tmpfs scratch directory behaves like a local file system"},
		Floor: func(t string, a map[string]int64) string {
			if a["api_calls_compared"] < 1000 || a["rotations_seen"] == 0 {
				return "too few compared calls or no rotation"
			}
			return ""
		},
	})
}

func runC01(c *CaseCtx) {
	r := c.Rng
	if c.Case%100 == 37 {
		ttlRealTime(c)
		return
	}
	if slot(c, 16) == 9 {
		largeHistory(c, "clean-kv", largeOpts{Kind: "kv", Modes: []int{0, 1}, Merge: (c.Case/16)%2 == 0})
		return
	}
	cfg := randCfg(r, []int{0, 1}, 96, 1024)
	nKeys := []int{6, 12, 25, 40, 60}[r.Intn(5)]
	u := defaultUniverse(r, 2+r.Intn(2), nKeys, false)
	run := NewRunner(c, cfg, u, "clean-kv")
	c.Log("cfg %s buckets=%v nkeys=%d", cfg, u.Buckets, nKeys)
	if !run.Open() {
		return
	}
	defer run.Close()
	g := &Gen{R: r, U: u, Cfg: cfg, KV: true, TTL: true, MaxOps: 6, BigVals: true}
	ntx := 20 + r.Intn(tier(c.Tier, 60, 130))
	tomb, expired := 0, 0
	for i := 0; i < ntx && !run.Dead && !c.Violated(); i++ {
		g.M = run.M
		t := g.WriteTx(true)
		out := run.Tx(t, false)
		if out.Committed {
			for _, o := range t.Ops {
				if o.K == "Delete" {
					tomb++
				}
				if o.K == "PutTS" && !(&kvItem{val: o.Val, ttl: o.TTL, ts: o.TS}).live() {
					expired++
				}
			}
		}
		// point reads of everything the transaction touched
		rt := TxSpec{Mode: "view"}
		for _, o := range t.Ops {
			rt.Ops = append(rt.Ops, Op{K: "Get", B: o.B, Key: o.Key})
		}
		run.Tx(rt, false)
		if i%7 == 6 || i == ntx-1 {
			g.M = run.M
			run.CheckObs("after-commit")
			run.Tx(g.ReadTx(10), false)
			run.CheckStruct("after-commit")
		}
		if r.Intn(25) == 0 {
			if c.Case%8 == 5 {
				if !run.ReopenResized(r, 96, 1024, g) {
					return
				}
			} else if !run.Reopen() {
				return
			}
			run.CheckObs("after-reopen")
		}
		if c.Case%5 == 3 && i == ntx/2 {
			// half way: one bucket is emptied, the database merged in this process, the same keys are put again; the
			// reads that follow (and the rest of the history) run on that handle
			if !drainMergeReput(run, g, run.Class) {
				return
			}
		}
	}
	if run.Dead || c.Violated() {
		return
	}
	if run.Reopen() {
		g.M = run.M
		run.CheckObs("after-final-reopen")
		run.Tx(g.ReadTx(10), false)
		run.CheckStruct("after-final-reopen")
	}
	files := run.Files()
	c.Stat("rotations_seen", int64(files-1))
	c.Stat("tombstones_written", int64(tomb))
	c.Stat("expired_puts_written", int64(expired))
	c.Nontrivial(files >= 3 && tomb >= 1 && expired >= 1)
	if c.Case < 2 {
		c.Sample(map[string]interface{}{"config": cfg.String(), "buckets": u.Buckets, "transactions": run.NTx, "first_steps": firstLines(c.hist, 6)})
	}
}

func firstLines(h []string, n int) []string {
	if len(h) > n {
		return h[:n]
	}
	return h
}

// ttlRealTime is the one scenario whose verdict involves the wall clock, and only in the direction that waiting
// longer cannot falsify: records whose deadline (timestamp + TTL) lies 1-2 s ahead when they are written must be
// gone once at least 4 s have passed - in every read API, on the same handle and after a reopen - while persistent
// records and records with a far deadline must still be there.  In between the handle sees what an application's
// process sees in that time: another database opened, used and closed, a Merge.  (Nothing is asserted about a record
// being still alive shortly before its deadline.)
func ttlRealTime(c *CaseCtx) {
	r := c.Rng
	cfg := randCfg(r, []int{0, 1, 2}, 150, 600)
	class := "ttl-real-time"
	if cfg.Mode == 2 {
		class += "-sparse"
	}
	dir := c.Dir("db")
	db, err := openNoPanic(cfg.Options(dir))
	if err != nil {
		c.Violate("open-failed:"+errClass(err.Error()), class, "Open failed: "+err.Error())
		return
	}
	defer func() {
		if db != nil {
			db.Close()
		}
	}()
	b := "b1"
	start := time.Now()
	now := uint64(start.Unix())
	filler := make([]byte, int(cfg.Seg)/3)
	for i := range filler {
		filler[i] = 1
	}
	steps := []Op{
		{K: "Put", B: b, Key: []byte("short"), Val: []byte("s"), TTL: 1},
		{K: "PutTS", B: b, Key: []byte("stamped"), Val: []byte("t"), TS: now - 100, TTL: 102},
		{K: "Put", B: b, Key: []byte("keep"), Val: []byte("k")},
		{K: "Put", B: b, Key: []byte("long"), Val: []byte("l"), TTL: 1000000},
		{K: "Put", B: b, Key: []byte("f1"), Val: filler}, {K: "Put", B: b, Key: []byte("f2"), Val: filler},
		{K: "Put", B: b, Key: []byte("f1"), Val: filler}, {K: "Put", B: b, Key: []byte("f2"), Val: filler},
		{K: "Put", B: b, Key: []byte("f1"), Val: []byte("1")}, {K: "Put", B: b, Key: []byte("f2"), Val: []byte("2")},
	}
	for _, o := range steps {
		c.Log("%s", o.String())
		if out := execTx(db, TxSpec{Mode: "update", Ops: []Op{o}}); out.Err != nil || out.Panic != "" {
			c.Violate("commit-error", class, fmt.Sprintf("%s failed: %v %s", o.String(), out.Err, out.Panic))
			return
		}
	}
	// another database comes and goes in this process
	if other, oerr := openNoPanic(cfg.Options(c.Dir("other"))); oerr == nil {
		execTx(other, TxSpec{Mode: "update", Ops: []Op{{K: "Put", B: "o", Key: []byte("x"), Val: []byte("y"), TTL: 1}}})
		other.Close()
	}
	if cfg.Mode != 2 && r.Intn(2) == 0 {
		func() {
			defer func() { recover() }()
			c.Log("merge")
			if db.Merge() == nil {
				c.Stat("merges_succeeded", 1)
			}
		}()
	}
	if r.Intn(2) == 0 {
		c.Log("reopen before the deadline")
		db.Close()
		if db, err = openNoPanic(cfg.Options(dir)); err != nil {
			c.Violate("open-failed:"+errClass(err.Error()), class, "Open failed: "+err.Error())
			return
		}
	}
	for time.Since(start) < 4200*time.Millisecond {
		time.Sleep(100 * time.Millisecond)
	}
	want := map[string]string{"short": "", "stamped": "", "keep": "k", "long": "l", "f1": "1", "f2": "2"}
	check := func(label string) {
		c.Stat("real_time_expiry_checks", 1)
		db.View(func(tx *nutsdb.Tx) error {
			for k, v := range want {
				e, gerr := tx.Get(b, []byte(k))
				got := ""
				if gerr == nil && e != nil {
					got = string(e.Value)
				}
				if got != v {
					c.Violate("ttl:"+label+":Get", class, fmt.Sprintf("%s (%s, %.1f s after the writes): Get(%q) = %q (err %v), want %q  [short: TTL 1 s; stamped: deadline 2 s after the write; keep: persistent; long: TTL 10^6 s]", label, cfg, time.Since(start).Seconds(), k, got, gerr, v))
				}
			}
			live := map[string]string{}
			if es, gerr := tx.GetAll(b); gerr == nil {
				for _, e := range es {
					live[string(e.Key)] = string(e.Value)
				}
			}
			scan := map[string]string{}
			if es, _, gerr := tx.PrefixScan(b, []byte(""), 0, 100); gerr == nil {
				for _, e := range es {
					scan[string(e.Key)] = string(e.Value)
				}
			} else if es, gerr := tx.RangeScan(b, []byte("a"), []byte("z")); gerr == nil {
				for _, e := range es {
					scan[string(e.Key)] = string(e.Value)
				}
			} else {
				scan = nil
			}
			for name, got := range map[string]map[string]string{"GetAll": live, "scan": scan} {
				if got == nil {
					continue
				}
				for k, v := range want {
					if got[k] != v {
						c.Violate("ttl:"+label+":"+name, class, fmt.Sprintf("%s (%s, %.1f s after the writes): %s has %q = %q, want %q", label, cfg, time.Since(start).Seconds(), name, k, got[k], v))
					}
				}
			}
			return nil
		})
	}
	check("same-handle")
	db.Close()
	if db, err = openNoPanic(cfg.Options(dir)); err != nil {
		c.Violate("open-failed:"+errClass(err.Error()), class, "Open failed: "+err.Error())
		db = nil
		return
	}
	check("after-reopen")
	c.Stat("rotations_seen", int64(countDataFiles(dir)-1))
	c.Nontrivial(true)
}
