package main

func init() {
	register(&Check{
		ID: "C01", Level: "exploration",
		NCases: func(t string) int { return tier(t, 400, 20000) },
		Run:    runC01,
		Rule: "case = (storage configuration, seeded history of Put/PutWithTimestamp/Delete write transactions over 2-3 buckets with reopen points) run against the real DB and the ordered-map-with-TTL model; " +
			"every Get/GetAll/RangeScan/PrefixScan/PrefixSearchScan result is compared; non-trivial = history had >=2 segment rotations, >=1 tombstone and >=1 expired key inside a compared scan; distinct = distinct hash of configuration+operation sequence",
		Assumptions: []string{"reference model encodes the documented KV/TTL semantics", "TTL cases are >=10^6 s away from the expiry boundary so no verdict depends on the wall clock", "tmpfs scratch directory behaves like a local file system"},
		Floor: func(t string, a map[string]int64) string {
			if a["api_calls_compared"] < 1000 || a["rotations_seen"] == 0 {
				return "too few compared calls or no rotation"
			}
			return ""
		},
	})
}

func runC01(c *CaseCtx) {
	r := c.Rng
	if c.Case%16 == 9 {
		largeHistory(c, "clean-kv", largeOpts{Kind: "kv", Modes: []int{0, 1}, Merge: c.Case%32 == 9})
		return
	}
	cfg := randCfg(r, []int{0, 1}, 96, 1024)
	nKeys := []int{6, 12, 25, 40, 60}[r.Intn(5)]
	u := defaultUniverse(r, 2+r.Intn(2), nKeys, false)
	run := NewRunner(c, cfg, u, "clean-kv")
	c.Log("cfg %s buckets=%v nkeys=%d", cfg, u.Buckets, nKeys)
	if !run.Open() {
		return
	}
	defer run.Close()
	g := &Gen{R: r, U: u, Cfg: cfg, KV: true, TTL: true, MaxOps: 6, BigVals: true}
	ntx := 20 + r.Intn(tier(c.Tier, 60, 130))
	tomb, expired := 0, 0
	for i := 0; i < ntx && !run.Dead && !c.Violated(); i++ {
		g.M = run.M
		t := g.WriteTx(true)
		out := run.Tx(t, false)
		if out.Committed {
			for _, o := range t.Ops {
				if o.K == "Delete" {
					tomb++
				}
				if o.K == "PutTS" && !(&kvItem{val: o.Val, ttl: o.TTL, ts: o.TS}).live() {
					expired++
				}
			}
		}
		// point reads of everything the transaction touched
		rt := TxSpec{Mode: "view"}
		for _, o := range t.Ops {
			rt.Ops = append(rt.Ops, Op{K: "Get", B: o.B, Key: o.Key})
		}
		run.Tx(rt, false)
		if i%7 == 6 || i == ntx-1 {
			g.M = run.M
			run.CheckObs("after-commit")
			run.Tx(g.ReadTx(10), false)
			run.CheckStruct("after-commit")
		}
		if r.Intn(25) == 0 {
			if !run.Reopen() {
				return
			}
			run.CheckObs("after-reopen")
		}
		if c.Case%5 == 3 && i == ntx/2 {
			// half way: one bucket is emptied, the database merged in this process, the same keys are put again; the
			// reads that follow (and the rest of the history) run on that handle
			if !drainMergeReput(run, g, run.Class) {
				return
			}
		}
	}
	if run.Dead || c.Violated() {
		return
	}
	if run.Reopen() {
		g.M = run.M
		run.CheckObs("after-final-reopen")
		run.Tx(g.ReadTx(10), false)
		run.CheckStruct("after-final-reopen")
	}
	files := run.Files()
	c.Stat("rotations_seen", int64(files-1))
	c.Stat("tombstones_written", int64(tomb))
	c.Stat("expired_puts_written", int64(expired))
	c.Nontrivial(files >= 3 && tomb >= 1 && expired >= 1)
	if c.Case < 2 {
		c.Sample(map[string]interface{}{"config": cfg.String(), "buckets": u.Buckets, "transactions": run.NTx, "first_steps": firstLines(c.hist, 6)})
	}
}

func firstLines(h []string, n int) []string {
	if len(h) > n {
		return h[:n]
	}
	return h
}
