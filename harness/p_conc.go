package main

import (
	"fmt"
	"math/rand"
	"strings"
	"sync"
	"sync/atomic"
	"time"

	"github.com/xujiajun/nutsdb"
)

func concReport(c *CaseCtx, res *concResult, class string) {
	c.Stat("transactions", res.txs)
	c.Stat("overlapping_transaction_pairs", res.overlaps)
	c.Stat("yields_injected", res.yields)
	c.Stat("merges", res.merges)
	c.Stat("merges_failed", res.mergeErrs)
	c.Stat("distinct_commit_orders", int64(len(res.orders)))
	for i, s := range res.snapshotBad {
		if i < 3 {
			c.Violate("read-only-tx-saw-two-states", class, s)
		}
	}
	for i, s := range res.seqBad {
		if i < 3 {
			c.Violate("sequence-key-order", class, s)
		}
	}
	c.Stat("final_read_transactions", res.finalReads)
	c.Stat("merges_before_workload", res.preMerges)
	c.Stat("many_keys_operations", res.pkeyOps)
	for i, s := range res.finalBad {
		if i < 3 {
			k := strings.Index(s, "|")
			c.Violate(s[:k], class, s[k+1:])
		}
	}
	for i, s := range res.panics {
		if i < 3 {
			c.Violate("panic:"+panicClass(s), class, "panic during the concurrent workload: "+s)
		}
	}
}

func runC14(c *CaseCtx) {
	r := c.Rng
	gs := []int{2, 4, 8, 16}[r.Intn(4)]
	ndb := 1 + r.Intn(3)
	var cfgs []Cfg
	sparse := false
	for i := 0; i < ndb; i++ {
		cfg := randCfg(r, []int{0, 0, 1, 2}, 200, 1200)
		if cfg.Mode == 2 {
			sparse = true
		}
		// every database gets a NodeNum no database of this worker process has used before: the first transaction
		// of each one registers its id generator in a process-wide table while other goroutines begin transactions
		cfg.Node = int64(2 + (c.Case*3+i)%1000)
		cfgs = append(cfgs, cfg)
	}
	class := "concurrent"
	if sparse {
		class = "concurrent-with-sparse"
	}
	cc := concCfg{DBs: cfgs, Goroutines: gs, TxPerG: tier(c.Tier, 300, 600) / gs * 2, Shards: 1 + r.Intn(3), YieldP: []float64{0, 0.05, 0.3}[r.Intn(3)], Class: class, PreMerge: c.Case%3 == 2}
	if sparse {
		// a sparse-mode read opens (and maps) a data file per key it touches: under the race detector such a
		// case costs 5-10x a RAM-mode one, so it gets a third of the transactions instead of a longer deadline
		cc.TxPerG = (cc.TxPerG + 2) / 3
	}
	c.Log("goroutines=%d dbs=%v shards=%d yield=%.2f premerge=%v", gs, cfgs, cc.Shards, cc.YieldP, cc.PreMerge)
	res := runConc(c, cc)
	concReport(c, res, class)
	checkLinearizable(c, res, class)
	c.Stat("histories", 1)
	c.Nontrivial(res.overlaps > 0 && res.txs >= 50)
	if c.Case < 3 {
		c.Sample(map[string]interface{}{"goroutines": gs, "databases": fmt.Sprint(cfgs), "shards": cc.Shards, "yield_probability": cc.YieldP,
			"transactions": res.txs, "overlapping_pairs": res.overlaps})
	}
}

func runC17(c *CaseCtx) {
	r := c.Rng
	gs := []int{2, 4, 8}[r.Intn(3)]
	cfg := randCfg(r, []int{0, 1}, 150, 500)
	class := "merge-concurrent"
	cc := concCfg{DBs: []Cfg{cfg}, Goroutines: gs, TxPerG: tier(c.Tier, 240, 500) / gs * 2, Shards: 1 + r.Intn(2), YieldP: []float64{0.05, 0.3}[r.Intn(2)],
		Merge: 1 + r.Intn(2), KVSetsOnly: true, Class: class}
	switch c.Case % 6 {
	case 5:
		cc.DrainedStart = true
	case 2:
		// the handle has completed a Merge before the workload: the workload's buckets are created on a handle whose
		// per-bucket bookkeeping is no longer maintained as on a fresh one, and every Merge of the workload is a second one
		cc.PreMerge = true
	case 1:
		// every record dead when the first Merge runs, workers queued on the lock meanwhile; with SyncEnable the
		// Merge also syncs the directory after each removal
		cc.AllDeadStart = true
		cc.DBs[0].Sync = true
		cc.Merge = 1
	case 4:
		// long merges: 1200-2000 live keys in segments of 8-16 KB (one Merge scans well over a thousand records)
		// while the workers overwrite, delete and read single keys
		cc.PKeys = 1200 + r.Intn(800)
		cc.DBs[0].Seg = int64(8192 + r.Intn(8192))
		cc.Merge = 1
		cc.Goroutines = 4 + r.Intn(5)
		cc.YieldP = 0.05 // (a yield point per scanned record: 0.3 would make every Merge take seconds)
		cc.TxPerG = tier(c.Tier, 160, 300) / cc.Goroutines * 2
	}
	c.Log("goroutines=%d db=%v shards=%d yield=%.2f mergers=%d alldead=%v pkeys=%d", cc.Goroutines, cc.DBs[0], cc.Shards, cc.YieldP, cc.Merge, cc.AllDeadStart, cc.PKeys)
	res := runConc(c, cc)
	concReport(c, res, class)
	checkLinearizable(c, res, class)
	c.Stat("histories", 1)
	c.Nontrivial(res.merges-res.mergeErrs > 0 && res.txs >= 50)
	if c.Case < 3 {
		c.Sample(map[string]interface{}{"goroutines": gs, "database": cfg.String(), "mergers": cc.Merge, "transactions": res.txs, "merges": res.merges, "merges_failed": res.mergeErrs})
	}
}

// runC18: Backup while writers run. Writers execute a pre-generated list of operations indexed by an in-database
// sequence key, so the state after n commits is the deterministic S(n).
func runC18(c *CaseCtx) {
	if slot(c, 8) == 1 {
		kind := []string{"kv", "set", "zset", "list"}[c.Rng.Intn(4)]
		modes := []int{0}
		if kind == "kv" {
			modes = []int{0, 1, 2}
		}
		largeHistory(c, "backup-quiescent", largeOpts{Kind: kind, Modes: modes, Backup: true, Merge: (c.Case/8)%2 == 0})
		return
	}
	r := c.Rng
	cfg := randCfg(r, []int{0, 0, 1, 2}, 200, 900)
	class := "backup"
	if cfg.Mode == 2 {
		class = "backup-sparse"
	}
	writers := []int{0, 1, 2, 4, 8}[r.Intn(5)]
	ds := cfg.Mode == 0
	u := defaultUniverse(r, 1, 6, ds)
	u.KVKeys = append(u.KVKeys, []byte("seq"))
	// keys that the script writes in ascending order, one every few transactions: the key range of the bucket keeps
	// growing (sparse mode rewrites its range metadata on each of those commits)
	nGrow := 0
	for i := 0; i < 40; i++ {
		u.KVKeys = append(u.KVKeys, []byte(fmt.Sprintf("\xffw%03d", i)))
	}
	growBase := len(u.KVKeys) - 40
	dir := c.Dir("db")
	// delays at the writers' file operations (writes, syncs, creating opens) and at the yield points: a Backup that is
	// waiting for the lock gets in wherever a writer lets go of it, also between a commit's unlock and any file
	// operation the commit might still have to do
	y := &yielder{p: []float64{0.05, 0.2}[r.Intn(2)], rng: rand.New(rand.NewSource(r.Int63()))}
	nutsdb.VerifSetYieldHook(y.maybe)
	nutsdb.VerifSetFSHook(func(op, path string, off int64, b []byte) (bool, int, error) {
		if strings.HasPrefix(path, dir) && (op == "write" || op == "sync" || op == "open") {
			y.maybe("fs." + op)
			if op == "open" && (strings.Contains(path, "/meta/") || strings.Contains(path, "/bpt/")) {
				// index metadata files are (re)written last in a commit and copied last by a Backup: now and then a
				// writer is held up there for as long as a whole copy takes
				y.mu.Lock()
				long := y.rng.Intn(4) == 0
				y.mu.Unlock()
				if long {
					time.Sleep(4 * time.Millisecond)
				}
			}
		}
		return false, 0, nil
	})
	defer nutsdb.VerifSetYieldHook(nil)
	defer nutsdb.VerifSetFSHook(nil)
	db, err := openNoPanic(cfg.Options(dir))
	if err != nil {
		c.Violate("open-failed:"+errClass(err.Error()), class, "Open failed: "+err.Error())
		return
	}
	if cfg.Mode != 2 && c.Case%3 == 2 {
		// a handle that has already merged successfully (see runConc)
		val := make([]byte, int(cfg.Seg)/3)
		for k := 0; k < 8; k++ {
			db.Update(func(tx *nutsdb.Tx) error { return tx.Put("pre", []byte(fmt.Sprintf("p%d", k%3)), val, 0) })
		}
		func() {
			defer func() { recover() }()
			if db.Merge() == nil {
				c.Stat("merges_before_workload", 1)
			}
		}()
	}
	// the script: ops[n] is executed by whichever writer finds seq == n
	nOps := tier(c.Tier, 120, 300)
	g := &Gen{R: r, U: u, Cfg: cfg, KV: true, List: ds, Set: ds, ZSet: ds, MaxOps: 3, M: NewModel(), NoZPop: false}
	// a quarter of the RAM-mode cases run Merge in a loop next to the writers and the Backups (Merge changes files,
	// never contents; such scripts leave out lists and positional sorted-set removals: recorded finding of C15)
	merger := cfg.Mode != 2 && c.Case%4 == 1 && writers > 0
	if merger {
		g.List, g.NoZPop = false, true
		class += "-with-merge"
	}
	var script []TxSpec
	states := []*Model{NewModel()}
	for i := 0; i < nOps; i++ {
		g.M = states[len(states)-1]
		t := g.WriteTx(true)
		// no SPop (random) and no writes to the sequence key itself
		var ops []Op
		for _, o := range t.Ops {
			if o.K == "SPop" || (dsOf(o.K) == "kv" && string(o.Key) == "seq") {
				continue
			}
			ops = append(ops, o)
		}
		if i%3 == 1 && nGrow < 40 {
			ops = append(ops, Op{K: "Put", B: u.Buckets[0], Key: u.KVKeys[growBase+nGrow], Val: []byte(fmt.Sprintf("g%d", nGrow))})
			nGrow++
		}
		ops = append(ops, Op{K: "Put", B: u.Buckets[0], Key: []byte("seq"), Val: []byte(fmt.Sprint(i + 1))})
		t.Ops = ops
		script = append(script, t)
		m := states[len(states)-1].Clone()
		for _, o := range ops {
			exp := m.Expect(o, true)
			// the model decides the outcome deterministically: an operation it requires to fail changes nothing
			res := Res{Err: exp.Err}
			if !exp.Err && exp.ErrOK {
				// either outcome is tolerated by the model; such operations are made deterministic by skipping them
				res = Res{Err: true}
			}
			if !res.Err {
				res.V = exp.V
			}
			m.Apply(o, res)
		}
		states = append(states, m)
	}
	// drop operations whose outcome the model leaves open, so that S(n) is exact
	for i := range script {
		m := states[i]
		var ops []Op
		mm := m.Clone()
		for _, o := range script[i].Ops {
			exp := mm.Expect(o, true)
			if exp.Err || exp.ErrOK {
				continue
			}
			ops = append(ops, o)
			mm.Apply(o, Res{V: exp.V})
		}
		script[i].Ops = ops
		states[i+1] = mm
	}
	var started, returned int64 // commits started / returned
	seqB := u.Buckets[0]
	step := func() (done bool, err error) {
		err = db.Update(func(tx *nutsdb.Tx) error {
			n := 0
			if e, gerr := tx.Get(seqB, []byte("seq")); gerr == nil && e != nil {
				fmt.Sscan(string(e.Value), &n)
			}
			if n >= len(script) {
				done = true
				return nil
			}
			atomic.AddInt64(&started, 1)
			for _, o := range script[n].Ops {
				if r := execOp(tx, o); r.Err || r.Panic != "" {
					return fmt.Errorf("script op %s failed: %s", o.String(), r.String())
				}
			}
			return nil
		})
		if err == nil && !done {
			atomic.AddInt64(&returned, 1)
		}
		return
	}
	var wg sync.WaitGroup
	var werr atomic.Value
	stop := int32(0)
	for w := 0; w < writers; w++ {
		wg.Add(1)
		go func() {
			defer wg.Done()
			for atomic.LoadInt32(&stop) == 0 {
				done, err := step()
				if err != nil {
					werr.Store(err.Error())
					return
				}
				if done {
					return
				}
			}
		}()
	}
	var mergesDone int64
	if merger {
		// a few dozen sealed segments to begin with (mostly dead records of an unrelated bucket): a Backup has many
		// files to copy, a Merge many to remove
		// ... with live records of the script spread over them: its first third runs now, one filler record after
		// each step
		val := make([]byte, int(cfg.Seg)/2)
		for k := 0; k < 40+r.Intn(40); k++ {
			if k < len(script)/3 {
				if _, err := step(); err != nil {
					werr.Store(err.Error())
					break
				}
			}
			db.Update(func(tx *nutsdb.Tx) error { return tx.Put("pre", []byte(fmt.Sprintf("q%d", k%7)), val, 0) })
		}
		wg.Add(1)
		go func() {
			defer wg.Done()
			for atomic.LoadInt32(&stop) == 0 {
				func() {
					defer func() {
						if p := recover(); p != nil {
							werr.Store(fmt.Sprintf("Merge panicked: %v", p))
						}
					}()
					if db.Merge() == nil {
						atomic.AddInt64(&mergesDone, 1)
					}
				}()
				time.Sleep(200 * time.Microsecond)
			}
		}()
	}
	if writers == 0 {
		for i := 0; i < r.Intn(len(script)); i++ {
			if _, err := step(); err != nil {
				werr.Store(err.Error())
				break
			}
		}
	}
	nBackups := 1 + r.Intn(3)
	if merger {
		nBackups += 3
	}
	type bk struct {
		dir      string
		lo, hi   int64
		err      error
		panicked string
	}
	var bks []bk
	for i := 0; i < nBackups; i++ {
		if writers > 0 {
			time.Sleep(time.Duration(200+r.Intn(3000)) * time.Microsecond)
		}
		b := bk{dir: c.Dir(fmt.Sprintf("backup%d", i))}
		b.lo = atomic.LoadInt64(&returned)
		func() {
			defer func() {
				if p := recover(); p != nil {
					b.panicked = fmt.Sprint(p)
				}
			}()
			b.err = db.Backup(b.dir)
		}()
		b.hi = atomic.LoadInt64(&started)
		bks = append(bks, b)
	}
	atomic.StoreInt32(&stop, 1)
	wg.Wait()
	c.Stat("merges_during_backups", atomic.LoadInt64(&mergesDone))
	if e, _ := werr.Load().(string); e != "" {
		c.Violate("writer-failed:"+errClass(e), class, "a scripted writer failed: "+e)
	}
	db.Close()
	for i, b := range bks {
		c.Stat("backups", 1)
		where := fmt.Sprintf("backup %d (%s, %d writers; %d commits had returned before it started, %d had started when it returned)", i, cfg, writers, b.lo, b.hi)
		if b.panicked != "" {
			c.Violate("panic:Backup", class, "Backup panicked: "+b.panicked)
			continue
		}
		if b.err != nil {
			c.Violate("backup-failed:"+errClass(b.err.Error()), class, fmt.Sprintf("%s failed: %v", where, b.err))
			continue
		}
		bdb, err := openNoPanic(cfg.Options(b.dir))
		if err != nil {
			c.Violate("backup-open-failed:"+errClass(err.Error()), class, fmt.Sprintf("%s does not open: %v", where, err))
			continue
		}
		got, oerr := obsReal(bdb, u)
		n := 0
		bdb.View(func(tx *nutsdb.Tx) error {
			if e, gerr := tx.Get(seqB, []byte("seq")); gerr == nil && e != nil {
				fmt.Sscan(string(e.Value), &n)
			}
			return nil
		})
		bdb.Close()
		if oerr != nil {
			c.Violate("obs-view-error", class, oerr.Error())
			continue
		}
		c.StatMax("max_backup_seq", int64(n))
		if int64(n) < b.lo || int64(n) > b.hi {
			c.Violate("backup-seq-outside-window", class, fmt.Sprintf("%s holds sequence %d, outside [%d,%d]", where, n, b.lo, b.hi))
			continue
		}
		if n > len(states)-1 {
			c.Violate("backup-seq-invalid", class, fmt.Sprintf("%s holds sequence %d > script length", where, n))
			continue
		}
		want := obsModel(states[n], u)
		if !sameObs(got, want) {
			c.Violate("backup-state:"+firstDiffCall(got, want), class, fmt.Sprintf("%s holds sequence %d but its contents are not the state after %d commits:\n%s", where, n, n, diffObs(got, want)))
		}
		if writers > 0 && b.hi > b.lo {
			c.Stat("backups_overlapping_commits", 1)
		}
	}
	c.Stat("histories", 1)
	c.Stat(fmt.Sprintf("histories_%d_writers", writers), 1)
	c.Nontrivial(atomic.LoadInt64(&returned) >= 5)
	c.Log("cfg %s writers=%d backups=%d commits=%d", cfg, writers, nBackups, atomic.LoadInt64(&returned))
	if c.Case < 3 {
		c.Sample(map[string]interface{}{"config": cfg.String(), "writers": writers, "backups": nBackups, "commits": atomic.LoadInt64(&returned)})
	}
}

func init() {
	register(&Check{
		ID: "C14", Level: "exploration",
		NCases:       func(t string) int { return tier(t, 64, 500) },
		Run:          runC14,
		Workers:      8,
		CaseDeadline: 8 * time.Minute, // wall-clock watchdog only: its firing is inconclusive unless the dump shows a lock deadlock
		Rule: "case = one concurrent execution under the Go race detector: 2-16 goroutines run 300-600 mixed View/Update transactions against 1-3 databases open at once in the process (all index modes; lists/sets/sorted sets in KeyVal), schedules perturbed by yields/sleeps injected at the verif hook points (before the lock, between fn and Commit, at file writes/syncs inside Commit) with probability 0, 0.05 or 0.3; " +
			"every transaction is recorded at the client boundary (call time, every value read/popped, return time) and the history is checked for strict serializability with porcupine (transaction = one operation, partitioned per database and shard, unique written values); further oracles: a read-only transaction reads everything twice and must see one state, an in-database sequence key must show no lost update and an order consistent with real time, no panic, no stuck lock (structural stuck detector), no race-detector report with a nutsdb frame; " +
			"non-trivial = >=1 pair of overlapping transactions and >=50 transactions; distinct by workload parameters hash",
		Assumptions: []string{"the race detector reports races on executed paths only; schedules are sampled", "inside a transaction reads precede state-dependent writes (keeps the C13 finding out of this verdict)"},
		Post:        racePost("concurrent"),
		Floor: func(t string, a map[string]int64) string {
			if a["overlapping_transaction_pairs"] < 1000 || a["porcupine_ok"]+a["porcupine_illegal"] == 0 {
				return fmt.Sprintf("overlapping pairs %d, porcupine verdicts %d", a["overlapping_transaction_pairs"], a["porcupine_ok"]+a["porcupine_illegal"])
			}
			return ""
		},
	})
	register(&Check{
		ID: "C17", Level: "exploration", LeakClass: "merge-concurrent",
		NCases:       func(t string) int { return tier(t, 48, 150) },
		Run:          runC17,
		Workers:      8,
		CaseDeadline: 8 * time.Minute, // wall-clock watchdog only (see C14)
		Rule: "[also: variants - handle merged before the workload; every key of the workload put and deleted in every shard bucket and the database merged before the workload (drained start); records stamped far in the future] case = as C14 (race detector + recorded history + porcupine) on one RAM-mode database with small segments while 1-2 extra goroutines call Merge in a loop; KV and sets only (for which a sequential Merge preserves contents, so that a discrepancy is attributable to concurrency); Merge is not an operation of the model - it must be invisible; " +
			"non-trivial = at least one successful Merge overlapped the workload",
		Assumptions: []string{"as C14"},
		Post:        racePost("merge-concurrent"),
		Floor: func(t string, a map[string]int64) string {
			if a["merges"] == 0 {
				return "no Merge ran"
			}
			return ""
		},
	})
	register(&Check{
		ID: "C18", Level: "exploration",
		NCases:  func(t string) int { return tier(t, 96, 1500) },
		Run:     runC18,
		Workers: 8,
		Rule: "[also: 1 case in 8 is a quiescent Backup of a large-geometry history (opened and compared with the model); a quarter of the RAM-mode cases run Merge in a loop next to writers and Backups over a few dozen sealed segments (list-free scripts)] case = 0-8 writer goroutines execute a pre-generated script indexed by an in-database sequence key (so the state after n commits is the deterministic S(n)) while Backup(dir) is called 1-3 times into fresh directories, under the race detector, in all index modes and RWModes; " +
			"oracle: the backup opens with the same options, its own sequence value n lies between the number of commits that had returned when Backup was called and the number that had started when it returned, and its full observation equals S(n); non-trivial = >=5 commits; distinct by script hash",
		Assumptions: []string{"script operations whose outcome the model leaves open are removed so that S(n) is exact"},
		Post:        racePost("backup"),
		Floor: func(t string, a map[string]int64) string {
			if a["backups"] < 50 {
				return "too few backups"
			}
			return ""
		},
	})
}
