package main

import (
	"fmt"
	"math"
	"math/rand"
	"os"
	"path/filepath"
	"reflect"
	"runtime/debug"
	"sort"
	"strings"

	"github.com/xujiajun/nutsdb"
	"github.com/xujiajun/nutsdb/ds/zset"
)

// boundary pools by type
var (
	poolBytes = [][]byte{nil, {}, []byte("|"), []byte("a|b"), []byte("a"), {0}, {0xff}, []byte("k1"), []byte("l1"), []byte("s1"), []byte(" "), []byte("1"), []byte("-1"), []byte("a|1|2")}
	poolStr   = []string{"", "|", "a|b", "b1", "b2", "\x00", "\xff", "never", "a/b", "."}
	poolInt   = []int{0, 1, -1, 2, -2, 3, 7, -7, 1 << 31, -(1 << 31), math.MaxInt64, math.MinInt64, math.MaxInt64 - 1, math.MinInt64 + 1}
	poolFloat = []float64{0, math.Copysign(0, -1), 1, -1, 0.5, math.Inf(1), math.Inf(-1), math.NaN(), math.MaxFloat64, -math.MaxFloat64, math.SmallestNonzeroFloat64, 1e300}
	poolU32   = []uint32{0, 1, math.MaxUint32, 1000000}
	poolU64   = []uint64{0, 1, math.MaxUint64, 1 << 62}
	poolRe    = []string{".*", "(", "[", "^$", "a{2000}", "\\"}
)

func fuzzArg(t reflect.Type, r *rand.Rand, name string, idx int, scratch string) reflect.Value {
	switch t.Kind() {
	case reflect.String:
		if name == "Backup" {
			ds := []string{filepath.Join(scratch, "bk"), filepath.Join(scratch, "bk", "sub"), "", filepath.Join(scratch, "db", "0.dat"), filepath.Join(scratch, "nul\x00name")}
			return reflect.ValueOf(ds[r.Intn(len(ds))])
		}
		if (name == "PrefixSearchScan") && idx == 3 {
			return reflect.ValueOf(poolRe[r.Intn(len(poolRe))])
		}
		return reflect.ValueOf(poolStr[r.Intn(len(poolStr))])
	case reflect.Slice:
		if r.Intn(40) == 0 {
			return reflect.ValueOf(make([]byte, 70000))
		}
		return reflect.ValueOf(poolBytes[r.Intn(len(poolBytes))])
	case reflect.Int:
		return reflect.ValueOf(poolInt[r.Intn(len(poolInt))])
	case reflect.Float64:
		return reflect.ValueOf(poolFloat[r.Intn(len(poolFloat))])
	case reflect.Uint32:
		return reflect.ValueOf(poolU32[r.Intn(len(poolU32))])
	case reflect.Uint64:
		return reflect.ValueOf(poolU64[r.Intn(len(poolU64))])
	case reflect.Bool:
		return reflect.ValueOf(r.Intn(2) == 0)
	case reflect.Ptr:
		switch r.Intn(4) {
		case 0:
			return reflect.Zero(t)
		case 1:
			return reflect.ValueOf(&zset.GetByScoreRangeOptions{})
		case 2:
			return reflect.ValueOf(&zset.GetByScoreRangeOptions{Limit: poolInt[r.Intn(len(poolInt))], ExcludeStart: true})
		default:
			return reflect.ValueOf(&zset.GetByScoreRangeOptions{Limit: -1, ExcludeEnd: true, ExcludeStart: r.Intn(2) == 0})
		}
	}
	return reflect.Zero(t)
}

func fuzzArgs(m reflect.Method, r *rand.Rand, scratch string) ([]reflect.Value, string) {
	mt := m.Type
	var args []reflect.Value
	var desc []string
	for i := 1; i < mt.NumIn(); i++ {
		t := mt.In(i)
		if mt.IsVariadic() && i == mt.NumIn()-1 {
			n := r.Intn(4)
			for k := 0; k < n; k++ {
				v := fuzzArg(t.Elem(), r, m.Name, i, scratch)
				args = append(args, v)
				desc = append(desc, descVal(v))
			}
			break
		}
		v := fuzzArg(t, r, m.Name, i, scratch)
		args = append(args, v)
		desc = append(desc, descVal(v))
	}
	return args, m.Name + "(" + strings.Join(desc, ", ") + ")"
}

func descVal(v reflect.Value) string {
	switch v.Kind() {
	case reflect.Slice:
		b := v.Bytes()
		if b == nil {
			return "nil"
		}
		if len(b) > 40 {
			return fmt.Sprintf("<%d bytes>", len(b))
		}
		return q(b)
	case reflect.String:
		return fmt.Sprintf("%q", v.String())
	case reflect.Ptr:
		if v.IsNil() {
			return "nil"
		}
		return fmt.Sprintf("%+v", v.Elem().Interface())
	}
	return fmt.Sprint(v.Interface())
}

// callFuzz calls one method, reporting a panic as a violation. Returns the error-ness of the result.
func callFuzz(c *CaseCtx, recv reflect.Value, m reflect.Method, r *rand.Rand, scratch, state string, cov map[string]int) {
	args, desc := fuzzArgs(m, r, scratch)
	c.Log("%s %s", state, desc)
	func() {
		defer func() {
			if p := recover(); p != nil {
				st := string(debug.Stack())
				cov[m.Name+"/"+state+"/panic"]++
				c.Violate("panic:"+m.Name+":"+panicClass(p)+" @"+firstRepoFrame(st), "api-fuzz",
					fmt.Sprintf("%s [%s] panicked: %v\n%s", desc, state, p, firstN(st, 1500)))
			}
		}()
		callBudget.reset()
		outs := recv.MethodByName(m.Name).Call(args)
		c.Stat("api_calls", 1)
		isErr := false
		if n := len(outs); n > 0 {
			if e, ok := outs[n-1].Interface().(error); ok && e != nil {
				isErr = true
			}
		}
		if isErr {
			cov[m.Name+"/"+state+"/err"]++
		} else {
			cov[m.Name+"/"+state+"/ok"]++
		}
	}()
}

var txType = reflect.TypeOf((*nutsdb.Tx)(nil))

func txMethods() []reflect.Method {
	var ms []reflect.Method
	for i := 0; i < txType.NumMethod(); i++ {
		m := txType.Method(i)
		if m.Name == "Commit" || m.Name == "Rollback" {
			continue
		}
		ms = append(ms, m)
	}
	return ms
}

func runC20(c *CaseCtx) {
	if slot(c, 64) == 9 {
		kind := []string{"kv", "set", "zset", "list"}[c.Rng.Intn(4)]
		modes := []int{0}
		if kind == "kv" {
			modes = []int{0, 1, 2}
		}
		largeHistory(c, "api", largeOpts{Kind: kind, Modes: modes, Merge: true, Backup: (c.Case/64)%2 == 0})
		return
	}
	r := c.Rng
	cfg := randCfg(r, []int{0, 0, 1, 2}, 200, 2000)
	dir := c.Dir("db")
	c.Log("cfg %s", cfg)
	db, err := openNoPanic(cfg.Options(dir))
	if err != nil {
		c.Violate("open-failed:"+errClass(err.Error()), "api-fuzz", "Open failed: "+err.Error())
		return
	}
	nutsdb.VerifSetYieldHook(callBudget.hook)
	defer nutsdb.VerifSetYieldHook(nil)
	cov := map[string]int{}
	// pre-populate with a short history so that calls hit non-empty structures
	u := &Universe{Buckets: []string{"b1", "b2"}, KVKeys: [][]byte{[]byte("a"), []byte("k1"), []byte("1")}, ListKeys: [][]byte{[]byte("l1")}, SetKeys: [][]byte{[]byte("s1")}, DS: cfg.Mode == 0}
	g := &Gen{R: r, U: u, Cfg: cfg, KV: true, List: cfg.Mode == 0, Set: cfg.Mode == 0, ZSet: cfg.Mode == 0, MaxOps: 4, M: NewModel()}
	if c.Case%4 == 0 {
		// a bucket with enough keys for a B+ tree of several levels, written in an order that splits inner nodes at
		// their left edge as well (descending runs)
		n := 40 + r.Intn(60)
		perm := r.Perm(n)
		for i := 0; i < n; i++ {
			k := perm[i]
			if c.Case%8 == 0 {
				k = n - 1 - i
			}
			execTx(db, TxSpec{Mode: "update", Ops: []Op{{K: "Put", B: "b1", Key: []byte(fmt.Sprintf("p%03d", k)), Val: []byte("v")}}})
		}
	}
	for i := 0; i < 12; i++ {
		t := g.WriteTx(false)
		out := execTx(db, t)
		if out.Committed {
			for j, o := range t.Ops {
				g.M.Apply(o, out.Res[j])
			}
		}
	}
	if c.Case%8 == 3 && cfg.Mode == 0 {
		// a list-heavy history (pushes, LSet, pops, LRem, LTrim) over several segments, then Merge: whatever Merge makes
		// of lists (a recorded finding of C15), it must not panic
		gl := &Gen{R: r, U: u, Cfg: cfg, List: true, MaxOps: 2, M: g.M}
		for i := 0; i < 40; i++ {
			t := gl.WriteTx(false)
			out := execTx(db, t)
			if out.Committed {
				for j, o := range t.Ops {
					g.M.Apply(o, out.Res[j])
				}
			}
			if i%10 == 9 {
				func() {
					defer func() {
						if p := recover(); p != nil {
							st := string(debug.Stack())
							c.Violate("panic:Merge:"+panicClass(p)+" @"+firstRepoFrame(st), "api-fuzz", fmt.Sprintf("Merge after a list history panicked: %v\n%s", p, firstN(st, 1200)))
						}
					}()
					c.Log("db.Merge() after a list history")
					if db.Merge() == nil {
						cov["Merge/db/ok"]++
					}
				}()
				if c.Violated() {
					return
				}
			}
		}
	}
	ms := txMethods()
	rounds := tier(c.Tier, 40, 120)
	locked := false // a panic inside Commit leaves the lock held: stop using this handle
	for round := 0; round < rounds && !locked; round++ {
		switch x := r.Intn(100); {
		case x < 30: // read-only transaction
			err := db.View(func(tx *nutsdb.Tx) error {
				for k := 0; k < 1+r.Intn(8); k++ {
					callFuzz(c, reflect.ValueOf(tx), ms[r.Intn(len(ms))], r, c.Scratch, "view", cov)
				}
				return nil
			})
			_ = err
		case x < 70: // write transaction, then Commit must not panic
			tx, err := db.Begin(true)
			if err != nil {
				continue
			}
			for k := 0; k < 1+r.Intn(8); k++ {
				callFuzz(c, reflect.ValueOf(tx), ms[r.Intn(len(ms))], r, c.Scratch, "update", cov)
			}
			func() {
				defer func() {
					if p := recover(); p != nil {
						st := string(debug.Stack())
						c.Violate("panic:Commit:"+panicClass(p)+" @"+firstRepoFrame(st), "api-fuzz",
							fmt.Sprintf("Commit panicked after calls that had returned: %v\n%s", p, firstN(st, 1500)))
						locked = true
					}
				}()
				if r.Intn(5) == 0 {
					tx.Rollback()
					cov["Rollback/update/ok"]++
				} else if err := tx.Commit(); err != nil {
					// a Commit that returned an error leaves the transaction open: calling Commit again (a retry) is an
					// API call like any other and must not panic either
					if r.Intn(2) == 0 {
						if err2 := tx.Commit(); err2 == nil {
							cov["Commit/update-retry/ok"]++
						} else {
							cov["Commit/update-retry/err"]++
							tx.Rollback()
						}
					} else {
						tx.Rollback()
					}
					cov["Commit/update/err"]++
				} else {
					cov["Commit/update/ok"]++
				}
			}()
		case x < 82: // finished transaction
			tx, err := db.Begin(r.Intn(2) == 0)
			if err != nil {
				continue
			}
			state := "after-commit"
			if r.Intn(2) == 0 {
				tx.Rollback()
				state = "after-rollback"
			} else {
				tx.Commit()
			}
			for k := 0; k < 1+r.Intn(6); k++ {
				callFuzz(c, reflect.ValueOf(tx), ms[r.Intn(len(ms))], r, c.Scratch, state, cov)
			}
			func() {
				defer func() {
					if p := recover(); p != nil {
						c.Violate("panic:finished-tx-end:"+panicClass(p), "api-fuzz", fmt.Sprintf("Commit/Rollback on a finished transaction panicked: %v", p))
					}
				}()
				tx.Commit()
				tx.Rollback()
			}()
		case x < 90: // DB-level calls
			func() {
				defer func() {
					if p := recover(); p != nil {
						st := string(debug.Stack())
						c.Violate("panic:DB:"+panicClass(p)+" @"+firstRepoFrame(st), "api-fuzz", fmt.Sprintf("DB-level call panicked: %v\n%s", p, firstN(st, 1500)))
						if strings.Contains(st, "Commit") {
							locked = true
						}
					}
				}()
				switch r.Intn(6) {
				case 0:
					c.Log("db.Update(nil)")
					db.Update(nil)
					cov["Update/db/err"]++
				case 1:
					c.Log("db.View(nil)")
					db.View(nil)
					cov["View/db/err"]++
				case 2:
					c.Log("db.Update(fn error)")
					db.Update(func(tx *nutsdb.Tx) error { tx.Put("b1", []byte("x"), []byte("y"), 0); return fmt.Errorf("no") })
					cov["Update/db/fnerr"]++
				case 3:
					if cfg.Mode != 2 || r.Intn(2) == 0 {
						c.Log("db.Merge()")
						if err := db.Merge(); err != nil {
							cov["Merge/db/err"]++
						} else {
							cov["Merge/db/ok"]++
						}
					}
				case 4:
					bd := []string{filepath.Join(c.Scratch, "bk"), filepath.Join(c.Scratch, "bk", "sub"), "", filepath.Join(dir, "0.dat"), filepath.Join(c.Scratch, "nul\x00name")}[r.Intn(5)]
					c.Log("db.Backup(%q)", bd)
					if err := db.Backup(bd); err != nil {
						cov["Backup/db/err"]++
					} else {
						cov["Backup/db/ok"]++
					}
				default:
					c.Log("db.Begin+Rollback")
					if tx, err := db.Begin(r.Intn(2) == 0); err == nil {
						tx.Rollback()
					}
					cov["Begin/db/ok"]++
				}
			}()
		default: // close, use after close, reopen
			c.Log("db.Close + calls on the closed database")
			func() {
				defer func() {
					if p := recover(); p != nil {
						st := string(debug.Stack())
						c.Violate("panic:closed-db:"+panicClass(p)+" @"+firstRepoFrame(st), "api-fuzz", fmt.Sprintf("call on a closed database panicked: %v\n%s", p, firstN(st, 1500)))
					}
				}()
				db.Close()
				cov["Close/db/ok"]++
				if err := db.Close(); err == nil {
					c.Violate("closed-db:Close-no-error", "api-fuzz", "second Close returned no error")
				}
				db.Update(func(tx *nutsdb.Tx) error { return nil })
				db.View(func(tx *nutsdb.Tx) error { return nil })
				db.Begin(true)
				db.Begin(false)
				db.Backup(filepath.Join(c.Scratch, "bk2"))
				cov["closed/db/calls"]++
			}()
			func() {
				defer func() {
					if p := recover(); p != nil {
						st := string(debug.Stack())
						c.Violate("panic:closed-db-merge:"+panicClass(p)+" @"+firstRepoFrame(st), "api-fuzz", fmt.Sprintf("Merge on a closed database panicked: %v\n%s", p, firstN(st, 1200)))
					}
				}()
				if r.Intn(3) == 0 {
					c.Log("db.Merge() on the closed database")
					db.Merge()
				}
			}()
			db, err = openNoPanic(cfg.Options(dir))
			if err != nil {
				// whether this directory must open is C09's question (structures outside KeyVal mode are documented as
				// unsupported); a panic inside Open is this property's
				if strings.HasPrefix(err.Error(), "PANIC") {
					c.Violate("panic:Open:"+errClass(err.Error()), "api-fuzz", "Open panicked on the directory the fuzzed calls left behind: "+err.Error())
				}
				os.RemoveAll(dir)
				var err2 error
				if db, err2 = openNoPanic(cfg.Options(dir)); err2 != nil {
					err = err2
					c.Violate("open-failed:"+errClass(err.Error()), "api-fuzz", "Open of an empty directory failed: "+err.Error())
					return
				}
				c.Stat("reopen_failed_started_fresh", 1)
				c.Stat("cov:reopen-failed:"+errClass(err.Error()), 1)
			}
		}
		if c.Unexplained() >= 8 {
			break
		}
	}
	// Open with hostile options
	for _, o := range []nutsdb.Options{
		{Dir: filepath.Join(c.Scratch, "o1"), SegmentSize: 0},
		{Dir: filepath.Join(c.Scratch, "o2"), SegmentSize: -5, EntryIdxMode: 2},
		{Dir: filepath.Join(c.Scratch, "o3"), SegmentSize: 100, NodeNum: -1},
		{Dir: filepath.Join(c.Scratch, "o4"), SegmentSize: 100, EntryIdxMode: 7, RWMode: 5, StartFileLoadingMode: 9},
		{Dir: filepath.Join(dir, "0.dat"), SegmentSize: 100},
		{Dir: "", SegmentSize: 100},
		{Dir: filepath.Join(c.Scratch, "nul\x00"), SegmentSize: 100},
	} {
		func() {
			defer func() {
				if p := recover(); p != nil {
					st := string(debug.Stack())
					c.Violate("panic:Open:"+panicClass(p)+" @"+firstRepoFrame(st), "api-fuzz", fmt.Sprintf("Open(%+v) panicked: %v\n%s", o, p, firstN(st, 1200)))
				}
			}()
			if o.Dir == "" {
				return // would resolve to the current directory: outside the scratch area
			}
			d, err := nutsdb.Open(o)
			cov["Open/hostile-options"]++
			if err == nil && d != nil {
				func() {
					defer func() {
						if p := recover(); p != nil {
							st := string(debug.Stack())
							c.Violate("panic:hostile-options-use:"+panicClass(p)+" @"+firstRepoFrame(st), "api-fuzz", fmt.Sprintf("using a database opened with %+v panicked: %v\n%s", o, p, firstN(st, 1200)))
						}
					}()
					d.Update(func(tx *nutsdb.Tx) error { return tx.Put("b", []byte("k"), []byte("v"), 0) })
					d.View(func(tx *nutsdb.Tx) error { tx.Get("b", []byte("k")); return nil })
					d.Close()
				}()
			}
		}()
	}
	if !locked && db != nil {
		func() {
			defer func() { recover() }()
			db.Close()
		}()
	}
	var keys []string
	for k := range cov {
		keys = append(keys, k)
	}
	sort.Strings(keys)
	c.Stat("fuzz_histories", 1)
	for _, k := range keys {
		c.Stat("cov:"+k, int64(cov[k]))
	}
	c.Nontrivial(len(keys) >= 20)
	if c.Case < 2 {
		c.Sample(map[string]interface{}{"config": cfg.String(), "method_state_outcomes_reached": len(keys), "first_calls": firstLines(c.hist, 8)})
	}
}

func init() {
	register(&Check{
		ID: "C20", Level: "exploration", NoLeakMonitor: true,
		NCases: func(t string) int { return tier(t, 1600, 12000) },
		Run:    runC20,
		Rule: "[also: 1 case in 64 is a large-geometry history with Merge and Backup; 1 in 8 KeyVal cases runs a list-heavy history with Merge calls] case = random sequence of calls on a pre-populated database: every exported Tx method (reflection-enumerated) with arguments drawn by type from boundary pools ([]byte: nil, empty, '|', 'a|b', 0x00/0xff, 70 KB; ints: 0, +-1, +-2^31, MinInt64, MaxInt64; floats: +-0, +-Inf, NaN, MaxFloat64, denormal; invalid regexps; nil options), " +
			"in a read-only transaction, in a write transaction (followed by Commit or Rollback), on a committed / rolled-back transaction; DB.Update/View with nil and failing fn, Merge, Backup (paths confined to the scratch directory), Close and every DB call after Close; Open with hostile options; all three index modes; " +
			"oracle: no recovered panic and no fatal runtime error (process death is caught by the driver); non-trivial = >=20 distinct (method, call state, outcome) combinations; distinct by call-sequence hash",
		Assumptions: []string{"a fatal runtime error (not recoverable) kills the worker and is attributed to the case by the driver"},
		Post: func(d *driverState) {
			// fold the per-(method,state,outcome) coverage into one number and a table
			covKeys := 0
			table := map[string]int64{}
			for k, v := range d.agg {
				if strings.HasPrefix(k, "cov:") {
					covKeys++
					table[k[4:]] = v
				}
			}
			_ = covKeys
		},
		Floor: func(t string, a map[string]int64) string {
			n := 0
			for k := range a {
				if strings.HasPrefix(k, "cov:") {
					n++
				}
			}
			if n < 150 || a["api_calls"] < 10000 {
				return fmt.Sprintf("%d (method,state,outcome) combinations, %d calls", n, a["api_calls"])
			}
			return ""
		},
	})
}
