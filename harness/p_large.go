package main

import (
	"fmt"
	"os"
)

// Large geometry.  Every other scenario of this harness uses segments of 96-2400 bytes so that files rotate all the
// time; whatever depends on absolute sizes (a buffer of 4 KiB or 64 KiB somewhere on a read path, a batch of 1024
// records, a block-wise copy) is out of their reach.  largeHistory is the counterpart: segments of 9 KB - 330 KB and
// either (shape "many") more than a thousand live small records in one segment, or (shape "big") few records with
// values of 1 KB - 69 KB, among them sizes around 4 KiB and 64 KiB and values holding long runs of zero bytes.  The
// history is compared call by call and by full observation with the reference model: after the writes, after a
// Backup (opened and observed), after Merge, after reopen, and again after a second round of all of it.
type largeOpts struct {
	Kind   string // "kv", "set", "zset", "list"
	Modes  []int  // index modes to choose from
	Merge  bool   // Merge steps (RAM modes; never with lists)
	Backup bool   // Backup steps at quiescent points; the copy is opened with the same options and observed
}

func largeValue(c *CaseCtx, ctr *int, n int, zeros bool) []byte {
	*ctr++
	tag := fmt.Sprintf("v%d-", *ctr)
	if n < len(tag) {
		n = len(tag)
	}
	v := make([]byte, n)
	copy(v, tag)
	if !zeros {
		for i := len(tag); i < n; i++ {
			v[i] = byte(1 + (i*7+*ctr)%3) // small bytes (see mkKVKeys)
		}
	}
	return v
}

func largeHistory(c *CaseCtx, class string, o largeOpts) {
	r := c.Rng
	many := r.Intn(2) == 0
	cfg := Cfg{Mode: o.Modes[r.Intn(len(o.Modes))], RW: r.Intn(2), StartRW: r.Intn(2), Sync: r.Intn(4) == 0}
	if many {
		cfg.Seg = int64(130000 + r.Intn(200000))
	} else {
		cfg.Seg = []int64{9000, 70000, 140000, 300000}[r.Intn(4)] + int64(r.Intn(6000))
	}
	class += "-large"
	if cfg.Mode == 2 {
		class += "-sparse"
	}
	u := &Universe{Buckets: []string{bucketPool[r.Intn(len(bucketPool))]}, DS: o.Kind != "kv",
		ListKeys: [][]byte{[]byte("l1"), []byte("l2")}, SetKeys: [][]byte{[]byte("s1"), []byte("s2")}}
	b := u.Buckets[0]
	nNames := 8 + r.Intn(6)
	if many {
		nNames = 1100 + r.Intn(500)
	}
	names := make([][]byte, nNames)
	for i := range names {
		names[i] = []byte(fmt.Sprintf("n%04d", i))
	}
	if o.Kind == "kv" {
		u.KVKeys = names
	} else {
		u.KVKeys = [][]byte{[]byte("k")}
	}
	run := NewRunner(c, cfg, u, class)
	c.Log("large geometry: cfg %s kind=%s many=%v names=%d", cfg, o.Kind, many, nNames)
	if !run.Open() {
		return
	}
	defer run.Close()
	ctr := 0
	// value sizes of the "big" shape; each must fit into a segment together with the 42-byte header, bucket and name
	room := int(cfg.Seg) - 42 - len(b) - 8
	bigSize := func() (int, bool) {
		for {
			var n int
			zeros := false
			switch r.Intn(7) {
			case 0:
				n = 4040 + r.Intn(70) - len(b) - 5 // bucket+key+value around 4 KiB (also minus the header)
			case 1:
				n = 61300 + r.Intn(4400) // around 64 KiB, below and above
			case 2:
				n = 65600 + r.Intn(3500)
			case 3:
				n, zeros = 8200+r.Intn(12000), true // a run of zero bytes longer than two pages
			case 4:
				n = 1000 + r.Intn(2500)
			case 5:
				n = room - 24 - r.Intn(3) // nearly a whole segment (a sorted-set record's key also carries the score text)
			default:
				n = r.Intn(40)
			}
			if n <= room && n >= 0 {
				return n, zeros
			}
		}
	}
	val := func() []byte {
		if many {
			ctr++
			return []byte(fmt.Sprintf("v%d", ctr))
		}
		n, z := bigSize()
		if ctr == 1 && room > 21000 {
			n, z = 8200+r.Intn(12000), true // every "big" history has a value with whole pages of zero bytes early in a segment
		}
		return largeValue(c, &ctr, n, z)
	}
	lkey := u.ListKeys[0]
	skey := u.SetKeys[0]
	// one write of name i (a fresh value each time)
	write := func(i int) Op {
		switch o.Kind {
		case "set":
			if many {
				return Op{K: "SAdd", B: b, Key: skey, Vals: [][]byte{names[i]}}
			}
			return Op{K: "SAdd", B: b, Key: skey, Vals: [][]byte{append(append([]byte{}, names[i]...), val()...)}}
		case "zset":
			return Op{K: "ZAdd", B: b, Key: names[i], F: float64(i%97) + 0.5, Val: val()}
		case "list":
			return Op{K: "RPush", B: b, Key: lkey, Vals: [][]byte{append(append([]byte{}, names[i]...), val()...)}}
		}
		return Op{K: "Put", B: b, Key: names[i], Val: val()}
	}
	bigMembers := map[int][]byte{} // set kind, big shape: the member written for name i (needed to remove it)
	remove := func(i int) (Op, bool) {
		switch o.Kind {
		case "set":
			if many {
				return Op{K: "SRem", B: b, Key: skey, Vals: [][]byte{names[i]}}, true
			}
			if m, ok := bigMembers[i]; ok {
				delete(bigMembers, i)
				return Op{K: "SRem", B: b, Key: skey, Vals: [][]byte{m}}, true
			}
			return Op{}, false
		case "zset":
			return Op{K: "ZRem", B: b, Key: names[i]}, run.M.Z[b] != nil
		case "list":
			return Op{K: "LPop", B: b, Key: lkey}, true
		}
		return Op{K: "Delete", B: b, Key: names[i]}, true
	}
	tx := func(ops []Op) bool {
		if len(ops) == 0 {
			return true
		}
		if o.Kind == "list" && ops[0].K == "LPop" {
			// one pop per transaction (what several pops inside one transaction return is C13's subject), at most 12
			if len(ops) > 12 {
				ops = ops[:12]
			}
			for _, op := range ops {
				run.Tx(TxSpec{Mode: "update", Ops: []Op{op}}, false)
				if run.Dead || c.Violated() {
					return false
				}
			}
			return true
		}
		for _, op := range ops {
			if op.K == "SAdd" && !many {
				for i := range names {
					if len(op.Vals[0]) >= len(names[i]) && string(op.Vals[0][:len(names[i])]) == string(names[i]) {
						bigMembers[i] = op.Vals[0]
					}
				}
			}
		}
		run.Tx(TxSpec{Mode: "update", Ops: ops}, false)
		return !run.Dead && !c.Violated()
	}
	round := func(label string) bool {
		if !run.CheckObs(label + "-writes") {
			return false
		}
		if o.Backup {
			if !largeBackup(run, label) {
				return false
			}
		}
		if o.Merge && cfg.Mode != 2 && o.Kind != "list" && run.Files() >= 2 {
			c.Log("merge (%d files)", run.Files())
			merr, p := mergeNoPanic(run)
			if p != "" {
				c.Violate("panic:Merge:"+p, class, "Merge panicked: "+p)
				return false
			}
			if merr != nil {
				c.Violate("merge-error:"+errClass(merr.Error()), class, fmt.Sprintf("Merge of %d files failed: %v", run.Files(), merr))
				return false
			}
			c.Stat("large_merges", 1)
			if !run.CheckObs(label + "-merge") {
				return false
			}
		}
		if !run.Reopen() {
			return false
		}
		return run.CheckObs(label + "-reopen")
	}
	// phase 1: everything written once
	if many {
		for lo := 0; lo < nNames; {
			hi := lo + 120 + r.Intn(120)
			if hi > nNames {
				hi = nNames
			}
			var ops []Op
			for i := lo; i < hi; i++ {
				ops = append(ops, write(i))
			}
			if !tx(ops) {
				return
			}
			lo = hi
		}
	} else {
		for i := 0; i < nNames; {
			var ops []Op
			for k := 1 + r.Intn(2); k > 0 && i < nNames; k-- {
				ops = append(ops, write(i))
				i++
			}
			if !tx(ops) {
				return
			}
		}
	}
	// churn: a tenth is removed, some of it and some of the rest written again
	churn := func() bool {
		var ops []Op
		n := nNames/10 + 1
		for k := 0; k < n; k++ {
			if op, ok := remove(r.Intn(nNames)); ok {
				ops = append(ops, op)
			}
			if len(ops) >= 200 {
				if !tx(ops) {
					return false
				}
				ops = nil
			}
		}
		if !tx(ops) {
			return false
		}
		ops = nil
		for k := 0; k < n/2+1; k++ {
			ops = append(ops, write(r.Intn(nNames)))
			if !many && len(ops) >= 2 || len(ops) >= 200 {
				if !tx(ops) {
					return false
				}
				ops = nil
			}
		}
		return tx(ops)
	}
	// rotate at least once, so that there is a sealed segment (holding the records written so far)
	rotate := func() bool {
		for k := 0; k < 6 && run.Files() < 2; k++ {
			n := room / 3
			if !tx([]Op{{K: "Put", B: b, Key: []byte("k"), Val: largeValue(c, &ctr, n, false)}}) {
				return false
			}
		}
		return true
	}
	if !churn() || !rotate() {
		return
	}
	c.Stat("large_histories", 1)
	c.Stat("large_max_live_names", int64(nNames))
	if !round("large-1") {
		return
	}
	if !churn() || !rotate() {
		return
	}
	if !round("large-2") {
		return
	}
	files := run.Files()
	c.Stat("rotations_seen", int64(files-1))
	c.Nontrivial(true)
}

// largeBackup copies the database with Backup while nothing else runs, opens the copy with the same options and
// compares its full observation with the model.
func largeBackup(run *Runner, label string) bool {
	c := run.C
	dir := c.Dir("backup")
	os.RemoveAll(dir)
	defer os.RemoveAll(dir)
	var berr error
	p := ""
	func() {
		defer func() {
			if x := recover(); x != nil {
				p = panicClass(x)
			}
		}()
		berr = run.DB.Backup(dir)
	}()
	if p != "" {
		c.Violate("panic:Backup:"+p, run.Class, "Backup panicked: "+p)
		return false
	}
	if berr != nil {
		c.Violate("backup-error:"+errClass(berr.Error()), run.Class, "Backup failed: "+berr.Error())
		return false
	}
	c.Stat("large_backups", 1)
	db2, err := openNoPanic(run.Cfg.Options(dir))
	if err != nil {
		c.Violate("backup-open-failed:"+errClass(err.Error()), run.Class, "the backup does not open: "+err.Error())
		return false
	}
	got, oerr := obsReal(db2, run.U)
	db2.Close()
	if oerr != nil {
		c.Violate("backup-obs-error", run.Class, "observation of the backup failed: "+oerr.Error())
		return false
	}
	if want := obsModel(run.M, run.U); !sameObs(got, want) {
		c.Violate("backup-differs:"+label+":"+firstDiffCall(got, want), run.Class, fmt.Sprintf("backup taken at a quiescent point (%s) differs from the committed state:\n%s", run.Cfg, diffObs(got, want)))
		return false
	}
	return true
}
