package main

import "fmt"

func runC03(c *CaseCtx) {
	r := c.Rng
	cfg := randCfg(r, []int{0, 1, 2}, 150, 600)
	class := "paging"
	nb := 2
	if cfg.Mode == 2 {
		nb = 1
		class += "-sparse"
	}
	nKeys := 5 + r.Intn(9)
	big := c.Case%4 == 3
	if big {
		nKeys = 30 + r.Intn(40) // several B+ tree levels: offsets that skip whole leaves and inner nodes
	}
	u := defaultUniverse(r, nb, nKeys, false)
	run := NewRunner(c, cfg, u, class)
	run.SigTag = func(o Op) string {
		if (o.K == "PrefixScan" || o.K == "PrefixSearchScan") && (o.I > 0 || o.J > 0) {
			return "[paged]"
		}
		return ""
	}
	c.Log("cfg %s buckets=%v nkeys=%d", cfg, u.Buckets, nKeys)
	if !run.Open() {
		return
	}
	defer run.Close()
	g := &Gen{R: r, U: u, Cfg: cfg, KV: true, TTL: true, MaxOps: 4}
	// a state with many dead keys: every key is written, then 30-60 % are deleted or overwritten by long-expired puts
	now := modelNow()
	for _, b := range u.Buckets {
		var ops []Op
		for _, k := range u.KVKeys {
			ops = append(ops, Op{K: "Put", B: b, Key: k, Val: g.value(b, len(k))})
			if len(ops) == 4 {
				run.Tx(TxSpec{Mode: "update", Ops: ops}, false)
				ops = nil
			}
		}
		if len(ops) > 0 {
			run.Tx(TxSpec{Mode: "update", Ops: ops}, false)
		}
	}
	dead := 0
	deadFrac := 30 + r.Intn(31)
	for _, b := range u.Buckets {
		for _, k := range u.KVKeys {
			if r.Intn(100) < deadFrac {
				dead++
				if r.Intn(2) == 0 {
					run.Tx(TxSpec{Mode: "update", Ops: []Op{{K: "Delete", B: b, Key: k}}}, false)
				} else {
					run.Tx(TxSpec{Mode: "update", Ops: []Op{{K: "PutTS", B: b, Key: k, Val: []byte("expired"), TS: now - 3000000, TTL: 1000000}}}, false)
				}
			}
		}
	}
	merged := false
	if cfg.Mode != 2 && c.Case%6 == 4 {
		// a bucket emptied completely, Merge, the same keys again: then the sweep
		if !drainMergeReput(run, g, class) {
			return
		}
		merged = true
	}
	if cfg.Mode != 2 && c.Case%3 == 1 && run.Files() >= 2 {
		// a Merge in the same process before the sweep (counters and flags of the handle that Merge touches), followed
		// by puts of keys that were dead at the time of the Merge; no reopen afterwards
		c.Log("merge (%d files)", run.Files())
		if merr, p := mergeNoPanic(run); p != "" {
			c.Violate("panic:Merge:"+p, class, "Merge panicked: "+p)
			return
		} else if merr == nil {
			merged = true
			c.Stat("merges_succeeded", 1)
		}
		for _, b := range u.Buckets {
			for _, k := range u.KVKeys {
				if it := run.M.KV[b][string(k)]; !it.live() && r.Intn(2) == 0 {
					run.Tx(TxSpec{Mode: "update", Ops: []Op{{K: "Put", B: b, Key: k, Val: g.value(b, len(k))}}}, false)
				}
			}
		}
	}
	for i := 0; i < 6 && !c.Violated(); i++ { // some more ordinary traffic
		g.M = run.M
		run.Tx(g.WriteTx(true), false)
	}
	if r.Intn(2) == 0 && !merged {
		if !run.Reopen() {
			return
		}
	}
	if c.Violated() || run.Dead {
		return
	}
	// exhaustive arguments on the final state
	prefixes := map[string]bool{"zz-absent": true}
	for _, k := range u.KVKeys {
		for n := 0; n <= len(k); n++ {
			if n == 0 && cfg.Mode == 2 {
				continue
			}
			prefixes[string(k[:n])] = true
		}
	}
	calls := 0
	for _, b := range u.Buckets {
		for p := range prefixes {
			// n = number of live keys with this prefix
			n := 0
			for _, kv := range run.M.livePairs(b) {
				if len(kv.K) >= len(p) && string(kv.K[:len(p)]) == p {
					n++
				}
			}
			var ops []Op
			for off := 0; off <= n+1; off++ {
				for lim := -1; lim <= n+1; lim++ {
					if lim == 0 {
						continue
					}
					if big && n > 12 && lim > 2 && lim < n-1 && (off+lim)%7 != 0 {
						continue // large states: every offset with limits -1, 1, 2, n-1, n, n+1 and a seventh of the rest
					}
					ops = append(ops, Op{K: "PrefixScan", B: b, Key: []byte(p), I: off, J: lim})
				}
			}
			for _, re := range []string{".*", "^[0-9a-z]*$", "0"} {
				for lim := -1; lim <= n+1; lim++ {
					if lim == 0 {
						continue
					}
					ops = append(ops, Op{K: "PrefixSearchScan", B: b, Key: []byte(p), Re: re, I: 0, J: lim})
				}
			}
			calls += len(ops)
			run.Tx(TxSpec{Mode: "view", Ops: ops}, false)
			if c.Violated() {
				break
			}
		}
		if c.Violated() {
			break
		}
	}
	c.Stat("states", 1)
	c.Stat("dead_keys", int64(dead))
	c.Stat("paging_calls", int64(calls))
	c.Nontrivial(dead >= 2 && calls >= 100)
	if c.Case < 3 {
		c.Sample(map[string]interface{}{"config": cfg.String(), "keys": nKeys, "dead_keys": dead, "paging_calls": calls})
	}
}

func init() {
	register(&Check{
		ID: "C03", Level: "exploration", LeakClass: "paging-handles",
		NCases: func(t string) int { return tier(t, 150, 1500) },
		Run:    runC03,
		Rule: "case = a generated database state in which 30-60 % of the keys are dead (deleted, or overwritten by a long-expired put; dead runs longer than a B+ tree leaf), in each of the three index modes, optionally reopened; then EXHAUSTIVELY for that state: every prefix of every key plus an absent prefix x offset 0..n+1 x limit in {-1, 1..n+1} for PrefixScan, and 3 regular expressions x limit for PrefixSearchScan (offset 0); " +
			"each result is compared with take(limit, drop(offset, live keys with the prefix)); non-trivial = >=2 dead keys and >=100 paging calls; distinct by state hash",
		Assumptions: []string{"limit 0 and limits below -1 are outside the property's domain (C20 only)"},
		Floor: func(t string, a map[string]int64) string {
			if a["paging_calls"] < 20000 {
				return fmt.Sprintf("only %d paging calls", a["paging_calls"])
			}
			return ""
		},
	})
}
