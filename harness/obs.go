package main

import (
	"fmt"

	"github.com/xujiajun/nutsdb"
)

// Universe is the finite set of names a history may touch; a full observation
// reads every one of them (also the never-written ones).
type Universe struct {
	Buckets  []string
	KVKeys   [][]byte
	ListKeys [][]byte
	SetKeys  [][]byte
	DS       bool // lists, sets and sorted sets are in play (HintKeyValAndRAMIdxMode only)
	NoGetAll bool // leave GetAll out (used where a known finding would otherwise contaminate)
}

// obsOps lists the read calls of a full observation.
func (u *Universe) obsOps() []Op {
	var ops []Op
	for _, b := range u.Buckets {
		if !u.NoGetAll {
			ops = append(ops, Op{K: "GetAll", B: b})
		}
		for _, k := range u.KVKeys {
			ops = append(ops, Op{K: "Get", B: b, Key: k})
		}
		if !u.DS {
			continue
		}
		for _, k := range u.ListKeys {
			ops = append(ops, Op{K: "LRange", B: b, Key: k, I: 0, J: -1}, Op{K: "LSize", B: b, Key: k})
		}
		for _, k := range u.SetKeys {
			ops = append(ops, Op{K: "SMembers", B: b, Key: k}, Op{K: "SCard", B: b, Key: k})
		}
		ops = append(ops, Op{K: "ZRangeByRank", B: b, I: 1, J: -1}, Op{K: "ZCard", B: b})
	}
	return ops
}

// normObs folds the tolerated equivalences (empty == error) into one token.
func normObs(kind string, err bool, v string, panicS string) string {
	if panicS != "" {
		return "PANIC(" + panicS + ")"
	}
	if err {
		switch kind {
		case "GetAll", "RangeScan", "PrefixScan", "PrefixSearchScan", "LRange", "SMembers", "ZRangeByRank", "ZRangeByScore",
			"SDiff1", "SDiff2", "SUnion1", "SUnion2", "ZMembers":
			return "[]"
		case "LSize", "SCard", "ZCard", "ZCount":
			return "0"
		}
		return "ERR"
	}
	return v
}

// obsReal performs the full observation inside one read-only transaction.
func obsReal(db *nutsdb.DB, u *Universe) (lines []string, err error) {
	ops := u.obsOps()
	lines = make([]string, 0, len(ops))
	err = db.View(func(tx *nutsdb.Tx) error {
		for _, o := range ops {
			r := execOp(tx, o)
			lines = append(lines, o.String()+" = "+normObs(o.K, r.Err, r.V, r.Panic))
		}
		return nil
	})
	return
}

func obsModel(m *Model, u *Universe) []string {
	ops := u.obsOps()
	lines := make([]string, 0, len(ops))
	for _, o := range ops {
		e := m.Expect(o, false)
		lines = append(lines, o.String()+" = "+normObs(o.K, e.Err, e.V, ""))
	}
	return lines
}

// diffObs returns a short description of the first differences, or "".
func diffObs(got, want []string) string {
	if len(got) != len(want) {
		return fmt.Sprintf("observation length %d vs %d", len(got), len(want))
	}
	out := ""
	n := 0
	for i := range got {
		if got[i] != want[i] {
			if n < 3 {
				out += fmt.Sprintf("got  %s\nwant %s\n", got[i], want[i])
			}
			n++
		}
	}
	if n > 3 {
		out += fmt.Sprintf("... and %d more differing reads\n", n-3)
	}
	return out
}

// firstDiffCall names the API of the first differing read (for signatures).
func firstDiffCall(got, want []string) string {
	for i := range got {
		if i < len(want) && got[i] != want[i] {
			for j, c := range got[i] {
				if c == '(' {
					return got[i][:j]
				}
			}
		}
	}
	return "?"
}

func sameObs(a, b []string) bool {
	if len(a) != len(b) {
		return false
	}
	for i := range a {
		if a[i] != b[i] {
			return false
		}
	}
	return true
}
