package main

import (
	"fmt"
	"strings"
)

func runC04(c *CaseCtx) {
	r := c.Rng
	cfg := randCfg(r, []int{0, 0, 1, 2}, 150, 700)
	ds := cfg.Mode == 0
	class := "isolation"
	adversarial := true
	var buckets []string
	if cfg.Mode == 2 {
		adversarial = c.Case%2 == 0
		if adversarial {
			class = "isolation-sparse-adversarial"
			buckets = []string{"a", "ab", "abc", "b"}[:2+r.Intn(3)]
		} else {
			// no name is a prefix of another and no bucket+key concatenation can coincide (distinct first letters,
			// keys never start with a bucket's continuation)
			class = "isolation-sparse-plain"
			buckets = []string{"p1", "q2", "r3"}[:2+r.Intn(2)]
		}
	} else {
		pool := []string{"", "a", "ab", "abc", "b", "a|", "bc", "k"}
		perm := r.Perm(len(pool))
		for i := 0; i < 3+r.Intn(2); i++ {
			buckets = append(buckets, pool[perm[i]])
		}
	}
	u := &Universe{Buckets: buckets, DS: ds,
		KVKeys:   [][]byte{[]byte("a"), []byte("b"), []byte("c"), []byte("bc"), []byte("abc"), []byte("ab"), []byte("|"), []byte("k")},
		ListKeys: [][]byte{[]byte("a"), []byte("ab")}, SetKeys: [][]byte{[]byte("a"), []byte("b")}}
	run := NewRunner(c, cfg, u, class)
	c.Log("cfg %s buckets=%q", cfg, buckets)
	if !run.Open() {
		return
	}
	defer run.Close()
	g := &Gen{R: r, U: u, Cfg: cfg, KV: true, List: ds, Set: ds, ZSet: ds, TTL: true, MaxOps: 3}
	ntx := 20 + r.Intn(tier(c.Tier, 30, 80))
	perBucket := func(lines []string) map[string][]string {
		m := map[string][]string{}
		for _, l := range lines {
			// every line starts with Call("bucket", ...
			i := strings.Index(l, "(\"")
			j := strings.Index(l[i+2:], "\"")
			// bucket names in the pool contain no quote characters
			b := l[i+2 : i+2+j]
			m[b] = append(m[b], l)
		}
		return m
	}
	prev, err := obsReal(run.DB, u)
	if err != nil {
		c.Violate("obs-view-error", class, err.Error())
		return
	}
	for i := 0; i < ntx && !run.Dead && !c.Violated(); i++ {
		g.M = run.M
		// a transaction that writes exactly one bucket
		b := buckets[r.Intn(len(buckets))]
		saved := u.Buckets
		u.Buckets = []string{b}
		t := g.WriteTx(true)
		u.Buckets = saved
		run.Tx(t, false)
		cur, err := obsReal(run.DB, u)
		if err != nil {
			c.Violate("obs-view-error", class, err.Error())
			break
		}
		c.Stat("noninterference_checks", 1)
		pb, cb := perBucket(prev), perBucket(cur)
		for _, other := range buckets {
			if other == b {
				continue
			}
			if !sameObs(pb[fmt.Sprintf("%s", strconvQuoteInner(other))], cb[strconvQuoteInner(other)]) {
				c.Violate("interference:"+firstDiffCall(cb[strconvQuoteInner(other)], pb[strconvQuoteInner(other)]), class,
					fmt.Sprintf("transaction %s wrote only bucket %q but reads of bucket %q changed (%s):\n%s", t.String(), b, other, cfg, diffObs(cb[strconvQuoteInner(other)], pb[strconvQuoteInner(other)])))
			}
		}
		prev = cur
		// and against the model: the same key holds different values in different buckets
		want := obsModel(run.M, u)
		if !sameObs(cur, want) {
			c.Violate("obs:after-commit:"+firstDiffCall(cur, want), class, fmt.Sprintf("observation differs from the model after %s (%s):\n%s", t.String(), cfg, diffObs(cur, want)))
		}
		if r.Intn(6) == 0 {
			g.M = run.M
			run.Tx(g.ReadTx(6), false)
		}
		if r.Intn(15) == 0 {
			if !run.Reopen() || !run.CheckObs("after-reopen") {
				break
			}
			prev, _ = obsReal(run.DB, u)
		}
	}
	if !run.Dead && !c.Violated() && run.Reopen() {
		run.CheckObs("after-final-reopen")
	}
	c.Stat("histories", 1)
	c.Stat("histories_"+class, 1)
	c.Nontrivial(run.Files() >= 2)
	if c.Case < 3 {
		c.Sample(map[string]interface{}{"config": cfg.String(), "buckets": buckets, "transactions": run.NTx, "first_steps": firstLines(c.hist, 4)})
	}
}

// strconvQuoteInner returns s as it appears between the quotes of %q.
func strconvQuoteInner(s string) string {
	q := fmt.Sprintf("%q", s)
	return q[1 : len(q)-1]
}

func init() {
	register(&Check{
		ID: "C04", Level: "exploration",
		NCases: func(t string) int { return tier(t, 300, 10000) },
		Run:    runC04,
		Rule: "case = seeded history over 2-4 buckets whose names are chosen adversarially ('', a, ab, abc, b, 'a|', bc, k: prefixes of each other and of keys, bucket+key concatenations that coincide such as (a,bc)/(ab,c)) with the same keys in every bucket; KV in all three index modes, lists/sets/sorted sets in KeyVal mode; every write transaction touches exactly one bucket; " +
			"oracle 1 (non-interference, self-comparison): the full observation of every other bucket is unchanged by the transaction; oracle 2: the full observation equals the reference model (same key, different values per bucket); sparse mode is split into a class with adversarial names and one with unrelated names; non-trivial = history rotated; distinct by history hash",
		Assumptions: []string{"bucket names are valid file names in sparse mode (no path separators)"},
		Floor: func(t string, a map[string]int64) string {
			if a["noninterference_checks"] < 2000 {
				return "too few non-interference checks"
			}
			return ""
		},
	})
}
