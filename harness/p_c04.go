package main

import (
	"fmt"
	"strings"
)

func runC04(c *CaseCtx) {
	r := c.Rng
	cfg := randCfg(r, []int{0, 0, 1, 2}, 150, 700)
	ds := cfg.Mode == 0
	class := "isolation"
	adversarial := true
	var buckets []string
	if cfg.Mode == 2 {
		adversarial = c.Case%2 == 0
		if adversarial {
			class = "isolation-sparse-adversarial"
			buckets = []string{"a", "ab", "abc", "b"}[:2+r.Intn(3)]
		} else {
			// no name is a prefix of another and no bucket+key concatenation can coincide (distinct first letters,
			// keys never start with a bucket's continuation)
			class = "isolation-sparse-plain"
			buckets = []string{"p1", "q2", "r3"}[:2+r.Intn(2)]
		}
	} else {
		pool := []string{"", "a", "ab", "abc", "b", "a|", "bc", "k"}
		perm := r.Perm(len(pool))
		for i := 0; i < 3+r.Intn(2); i++ {
			buckets = append(buckets, pool[perm[i]])
		}
	}
	u := &Universe{Buckets: buckets, DS: ds,
		KVKeys:   [][]byte{[]byte("a"), []byte("b"), []byte("c"), []byte("bc"), []byte("abc"), []byte("ab"), []byte("|"), []byte("k")},
		ListKeys: [][]byte{[]byte("a"), []byte("ab")}, SetKeys: [][]byte{[]byte("a"), []byte("b"), []byte("|b")}}
	run := NewRunner(c, cfg, u, class)
	c.Log("cfg %s buckets=%q", cfg, buckets)
	if !run.Open() {
		return
	}
	defer run.Close()
	g := &Gen{R: r, U: u, Cfg: cfg, KV: true, List: ds, Set: ds, ZSet: ds, TTL: true, MaxOps: 3}
	// merge variant (RAM modes): Merge + reopen at random points. Lists and positional sorted-set removals are left
	// out there: what Merge does to them is the recorded finding of C15/C16, not a bucket-isolation question.
	mergeVariant := cfg.Mode != 2 && c.Case%3 == 1
	if mergeVariant {
		g.List, g.NoZPop = false, true
		class += "-merge"
		run.Class = class
	}
	ntx := 20 + r.Intn(tier(c.Tier, 30, 80))
	perBucket := func(lines []string) map[string][]string {
		m := map[string][]string{}
		for _, l := range lines {
			// every line starts with Call("bucket", ...
			i := strings.Index(l, "(\"")
			j := strings.Index(l[i+2:], "\"")
			// bucket names in the pool contain no quote characters
			b := l[i+2 : i+2+j]
			m[b] = append(m[b], l)
		}
		return m
	}
	// pairs (b1,k1) / (b2,k2) of the universe whose bucket+key concatenations coincide
	type bk struct {
		b string
		k []byte
	}
	var collide [][2]bk
	for _, b1 := range buckets {
		for _, b2 := range buckets {
			if b1 >= b2 {
				continue
			}
			for _, k1 := range u.KVKeys {
				for _, k2 := range u.KVKeys {
					if b1+string(k1) == b2+string(k2) {
						collide = append(collide, [2]bk{{b1, k1}, {b2, k2}})
					}
				}
			}
		}
	}
	// the same for set keys: pairs whose plain or '|'-joined bucket and key strings coincide
	var setCollide [][2]bk
	for _, b1 := range buckets {
		for _, b2 := range buckets {
			if b1 >= b2 {
				continue
			}
			for _, k1 := range u.SetKeys {
				for _, k2 := range u.SetKeys {
					if b1+string(k1) == b2+string(k2) || b1+"|"+string(k1) == b2+"|"+string(k2) {
						setCollide = append(setCollide, [2]bk{{b1, k1}, {b2, k2}})
					}
				}
			}
		}
	}
	// crossTx: ONE transaction that writes several buckets: the same keys / members in all of them, and when the
	// universe has them, two pairs whose bucket+key strings coincide. Only the model oracle applies to it.
	ctr := 0
	crossTx := func() TxSpec {
		t := TxSpec{Mode: "update"}
		val := func() []byte { ctr++; return []byte(fmt.Sprintf("x%d", ctr)) }
		if len(collide) > 0 && r.Intn(3) != 0 {
			p := collide[r.Intn(len(collide))]
			i := r.Intn(2)
			t.Ops = append(t.Ops, Op{K: "Put", B: p[i].b, Key: p[i].k, Val: val()}, Op{K: "Put", B: p[1-i].b, Key: p[1-i].k, Val: val()})
			c.Stat("colliding_pairs_written_in_one_tx", 1)
		}
		k := g.pick(u.KVKeys)
		for _, b := range buckets {
			switch x := r.Intn(6); {
			case x < 3:
				t.Ops = append(t.Ops, Op{K: "Put", B: b, Key: k, Val: val()})
			case x == 3:
				t.Ops = append(t.Ops, Op{K: "Delete", B: b, Key: k})
			}
		}
		if ds && len(setCollide) > 0 && r.Intn(2) == 0 {
			p, m := setCollide[r.Intn(len(setCollide))], g.member()
			t.Ops = append(t.Ops, Op{K: "SAdd", B: p[0].b, Key: p[0].k, Vals: [][]byte{m}}, Op{K: "SAdd", B: p[1].b, Key: p[1].k, Vals: [][]byte{m}})
			c.Stat("colliding_set_keys_written_in_one_tx", 1)
		}
		if ds {
			sk, m := g.pick(u.SetKeys), g.member()
			zk := g.zKey()
			for _, b := range buckets {
				if r.Intn(2) == 0 {
					t.Ops = append(t.Ops, Op{K: "SAdd", B: b, Key: sk, Vals: [][]byte{m}})
				}
				if r.Intn(3) == 0 {
					t.Ops = append(t.Ops, Op{K: "ZAdd", B: b, Key: zk, F: float64(r.Intn(3)), Val: val()})
				}
				if !mergeVariant && r.Intn(3) == 0 {
					t.Ops = append(t.Ops, Op{K: "RPush", B: b, Key: g.pick(u.ListKeys), Vals: [][]byte{val()}})
				}
			}
		}
		if len(t.Ops) == 0 {
			t.Ops = append(t.Ops, Op{K: "Put", B: buckets[0], Key: k, Val: val()})
		}
		return t
	}
	prev, err := obsReal(run.DB, u)
	if err != nil {
		c.Violate("obs-view-error", class, err.Error())
		return
	}
	for i := 0; i < ntx && !run.Dead && !c.Violated(); i++ {
		g.M = run.M
		if r.Intn(4) == 0 {
			t := crossTx()
			run.Tx(t, false)
			c.Stat("cross_bucket_transactions", 1)
			if !run.CheckObs("after-cross-bucket-tx") {
				break
			}
			prev, _ = obsReal(run.DB, u)
			continue
		}
		// a transaction that writes exactly one bucket
		b := buckets[r.Intn(len(buckets))]
		saved := u.Buckets
		u.Buckets = []string{b}
		t := g.WriteTx(true)
		u.Buckets = saved
		run.Tx(t, false)
		cur, err := obsReal(run.DB, u)
		if err != nil {
			c.Violate("obs-view-error", class, err.Error())
			break
		}
		c.Stat("noninterference_checks", 1)
		pb, cb := perBucket(prev), perBucket(cur)
		for _, other := range buckets {
			if other == b {
				continue
			}
			if !sameObs(pb[fmt.Sprintf("%s", strconvQuoteInner(other))], cb[strconvQuoteInner(other)]) {
				c.Violate("interference:"+firstDiffCall(cb[strconvQuoteInner(other)], pb[strconvQuoteInner(other)]), class,
					fmt.Sprintf("transaction %s wrote only bucket %q but reads of bucket %q changed (%s):\n%s", t.String(), b, other, cfg, diffObs(cb[strconvQuoteInner(other)], pb[strconvQuoteInner(other)])))
			}
		}
		prev = cur
		// and against the model: the same key holds different values in different buckets
		want := obsModel(run.M, u)
		if !sameObs(cur, want) {
			c.Violate("obs:after-commit:"+firstDiffCall(cur, want), class, fmt.Sprintf("observation differs from the model after %s (%s):\n%s", t.String(), cfg, diffObs(cur, want)))
		}
		if r.Intn(6) == 0 {
			g.M = run.M
			run.Tx(g.ReadTx(6), false)
		}
		if mergeVariant && r.Intn(8) == 0 && run.Files() >= 2 {
			c.Log("merge (%d files)", run.Files())
			merr, p := mergeNoPanic(run)
			if p != "" {
				c.Violate("panic:Merge:"+p, class, "Merge panicked: "+p)
				break
			}
			if merr == nil {
				c.Stat("merges_succeeded", 1)
			}
			if !run.CheckObs("after-merge") || !run.Reopen() || !run.CheckObs("after-merge-reopen") {
				break
			}
			prev, _ = obsReal(run.DB, u)
			continue
		}
		if r.Intn(15) == 0 {
			if !run.Reopen() || !run.CheckObs("after-reopen") {
				break
			}
			prev, _ = obsReal(run.DB, u)
		}
	}
	if !run.Dead && !c.Violated() && run.Reopen() {
		run.CheckObs("after-final-reopen")
	}
	c.Stat("histories", 1)
	c.Stat("histories_"+class, 1)
	c.Nontrivial(run.Files() >= 2)
	if c.Case < 3 {
		c.Sample(map[string]interface{}{"config": cfg.String(), "buckets": buckets, "transactions": run.NTx, "first_steps": firstLines(c.hist, 4)})
	}
}

// strconvQuoteInner returns s as it appears between the quotes of %q.
func strconvQuoteInner(s string) string {
	q := fmt.Sprintf("%q", s)
	return q[1 : len(q)-1]
}

func init() {
	register(&Check{
		ID: "C04", Level: "exploration",
		NCases: func(t string) int { return tier(t, 300, 2500) },
		Run:    runC04,
		Rule: "case = seeded history over 2-4 buckets whose names are chosen adversarially ('', a, ab, abc, b, 'a|', bc, k: prefixes of each other and of keys, bucket+key concatenations that coincide such as (a,bc)/(ab,c)) with the same keys in every bucket; KV in all three index modes, lists/sets/sorted sets in KeyVal mode; three of four write transactions touch exactly one bucket, the fourth writes the same keys/members to several buckets at once, including two pairs whose bucket+key strings coincide; a third of the RAM-mode histories also call Merge and reopen (no lists / positional sorted-set removals there: C15/C16 findings); " +
			"oracle 1 (non-interference, self-comparison): the full observation of every other bucket is unchanged by a single-bucket transaction; oracle 2: the full observation equals the reference model (same key, different values per bucket); sparse mode is split into a class with adversarial names and one with unrelated names; non-trivial = history rotated; distinct by history hash",
		Assumptions: []string{"bucket names are valid file names in sparse mode (no path separators)"},
		Floor: func(t string, a map[string]int64) string {
			if a["noninterference_checks"] < 2000 {
				return "too few non-interference checks"
			}
			return ""
		},
	})
}
