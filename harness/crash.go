package main

import (
	"fmt"
	"math/rand"
	"os"
	"runtime/debug"
	"sort"
	"strings"

	"github.com/xujiajun/nutsdb"
)

// Image is one directory state a crash could leave behind.
type Image struct {
	Kind     string // crash | torn | pl-durable | pl-mixed | pl-torn | pl-zero
	Snap     *Snapshot
	Ev       FSEvent
	TornLen  int
	Cur      int  // index of the model state before the step in flight
	InFl     bool // a step (transaction / merge) is in flight: state Cur+1 is allowed too
	Fresh    bool // the newest data segment holds nothing but records of the step in flight (it was started by it)
	RootPend bool // sparse mode: the step in flight has persisted a segment's root-index record (with its own, still uncommitted keys in the range) and the next segment does not hold a record yet
	Note     string
}

// CrashRec turns one monitored execution into crash images.
type CrashRec struct {
	C      *CaseCtx
	Mon    *FSMon
	Rng    *rand.Rand
	States [][]string // States[i] = model observation after i finished steps
	Models []*Model   // Models[i] = the model itself (when the workload provides it): needed to continue on an image
	Images []Image

	ContinueMax int // how many recovered images per case are used further (more transactions, Close, Open)
	continued   int

	// immediate continuation: at a few crash points in the middle of a multi-record commit the image is opened AT
	// ONCE, inside the hook, by a second handle in the same process, which commits one unrelated transaction -
	// if the machine allows, within the millisecond in which the interrupted transaction began. After a reopen
	// the interrupted transaction must still be invisible (transaction ids unique across handles).
	ImmediateMax int
	Cfg          Cfg
	U            *Universe
	immediate    int
	stepWrites   int
	freshSeg     bool // the step in flight has started a new data segment (its first write went to offset 0)
	freshCont    int
	rootPend     bool
	Inj          *injector // optional: makes chosen record writes of the step in flight fail (C10/C11 workloads with I/O faults)
	rootCont     map[int]bool

	Torn     bool
	Power    bool
	MaxImg   int     // cap on images kept (reservoir over events once exceeded)
	KeepProb float64 // 1 = every event

	// power-loss shadow
	durable     map[string]string
	lastUnsync  map[string]*FSEvent // last write since the file's last sync
	prevSync    string
	prevValid   bool
	prevDirSync bool

	cur  int
	infl bool
	seen map[string]bool
}

func NewCrashRec(c *CaseCtx, root string) *CrashRec {
	cr := &CrashRec{C: c, Mon: NewFSMon(root), Rng: rand.New(rand.NewSource(c.Rng.Int63())), Torn: true,
		durable: map[string]string{}, lastUnsync: map[string]*FSEvent{}, KeepProb: 1, MaxImg: 1 << 30}
	cr.Mon.OnEvent = cr.onEvent
	return cr
}

func (cr *CrashRec) SetStep(cur int, inflight bool, phase string) {
	cr.cur, cr.infl = cur, inflight
	cr.stepWrites = 0
	cr.freshSeg = false
	cr.rootPend = false
	cr.Mon.SetTx(cur, phase)
}

func snapHash(s *Snapshot) uint64 {
	paths := make([]string, 0, len(s.Files))
	for p := range s.Files {
		paths = append(paths, p)
	}
	sort.Strings(paths)
	var w hashWriter
	for _, p := range paths {
		w.add(p)
		w.add(s.Files[p])
	}
	for _, d := range s.Dirs {
		w.add("d:" + d)
	}
	return w.h
}

func (cr *CrashRec) add(img Image) {
	// identical directory content with the same allowed states needs to be opened only once
	key := fmt.Sprintf("%x/%d/%v", snapHash(img.Snap), img.Cur, img.InFl)
	if cr.seen == nil {
		cr.seen = map[string]bool{}
	}
	cr.C.Stat("images_built", 1)
	if cr.seen[key] {
		return
	}
	cr.seen[key] = true
	if len(cr.Images) >= cr.MaxImg {
		// replace a random earlier image (keeps a uniform sample, deterministic by seed)
		i := cr.Rng.Intn(len(cr.Images) + 1)
		if i < len(cr.Images) {
			cr.Images[i] = img
		}
		cr.C.Stat("images_dropped_by_cap", 1)
		return
	}
	cr.Images = append(cr.Images, img)
}

func (cr *CrashRec) onEvent(ev *FSEvent) (bool, int, error) {
	snap := cr.Mon.Snap()
	cr.C.Stat("fs_events", 1)
	cr.C.Stat("fs_"+ev.Op, 1)
	if cr.Power {
		// the sync that was announced by the previous event has completed: its file is durable as it is now
		if cr.prevValid {
			if content, ok := snap.Files[cr.prevSync]; ok {
				cr.durable[cr.prevSync] = content
				delete(cr.lastUnsync, cr.prevSync)
			}
		}
		cr.prevValid = ev.Op == "sync"
		cr.prevSync = ev.Path
		// a directory sync that was announced by the previous event has completed: every removal made before it
		// is durable, the removed files cannot come back
		if cr.prevDirSync {
			for p := range cr.durable {
				if _, still := snap.Files[p]; !still {
					delete(cr.durable, p)
					delete(cr.lastUnsync, p)
				}
			}
		}
		cr.prevDirSync = ev.Op == "syncdir"
	}
	if ev.Op == "write" && strings.HasSuffix(ev.Path, ".dat") {
		cr.stepWrites++
		if cr.infl && cr.stepWrites >= 2 && cr.immediate < cr.ImmediateMax && cr.U != nil && cr.Cfg.Mode != 2 && cr.cur < len(cr.Models) && cr.Models[cr.cur] != nil && cr.Rng.Intn(3) == 0 {
			cr.immediate++
			cr.immediateContinuation(snap, ev)
		}
	}
	keep := cr.KeepProb >= 1 || cr.Rng.Float64() < cr.KeepProb
	if keep {
		base := Image{Kind: "crash", Snap: snap, Ev: *ev, Cur: cr.cur, InFl: cr.infl, Fresh: cr.infl && cr.freshSeg, RootPend: cr.infl && cr.rootPend}
		if !cr.Power {
			cr.add(base)
			if cr.Torn && ev.Op == "write" && len(ev.Data) > 1 {
				isRec := strings.HasSuffix(ev.Path, ".dat")
				for _, n := range tornLengths(ev.Data, isRec) {
					ts := snap.clone()
					ts.Files[ev.Path] = applyWrite(ts.Files[ev.Path], ev.Off, ev.Data, n)
					img := base
					img.Kind, img.Snap, img.TornLen = "torn", ts, n
					cr.add(img)
				}
			}
		} else {
			cr.powerImages(snap, ev, base)
		}
	}
	if cr.infl && ev.Op == "write" && ev.Off == 0 && strings.HasSuffix(ev.Path, ".dat") {
		cr.freshSeg = true // images taken from the next event on show a segment that only holds records of this step
		cr.rootPend = false
	}
	if cr.infl && ev.Op == "write" && strings.Contains(ev.Path, "bpt/root/") {
		cr.rootPend = true
	}
	failed, nWritten := false, 0
	var ferr error
	if cr.Inj != nil {
		failed, nWritten, ferr = cr.Inj.onEvent(ev)
		if traceOn {
			fmt.Fprintf(os.Stderr, "TRACE   fs #%d %s %s off=%d len=%d phase=%s failed=%v\n", ev.Seq, ev.Op, ev.Path, ev.Off, len(ev.Data), ev.Phase, failed)
		}
		if failed && cr.Power {
			// a sync that fails has not made anything durable
			if ev.Op == "sync" {
				cr.prevValid = false
			}
			if ev.Op == "syncdir" {
				cr.prevDirSync = false
			}
		}
	}
	if cr.Power && ev.Op == "write" && (!failed || nWritten > 0) {
		e := *ev
		if failed {
			e.Data = e.Data[:nWritten] // the write failed after this prefix
		}
		cr.lastUnsync[ev.Path] = &e
	}
	if cr.Power && ev.Op == "remove" {
		// the directory is never synced by the library: a removal may or may not be durable.
		// The shadow keeps the file (removal undone); images choose.
	}
	return failed, nWritten, ferr
}

func (cr *CrashRec) powerImages(cur *Snapshot, ev *FSEvent, base Image) {
	// pl-durable: every file is its content at its last completed sync; never-synced files do not exist
	d := &Snapshot{Dirs: cur.Dirs, Files: map[string]string{}}
	for p, c := range cr.durable {
		if _, still := cur.Files[p]; still {
			d.Files[p] = c
		}
	}
	img := base
	img.Kind, img.Snap = "pl-durable", d
	cr.add(img)
	// pl-zero: never-synced files exist, zero-filled to their current size
	z := d.clone()
	nz := 0
	for p, c := range cur.Files {
		if _, ok := z.Files[p]; !ok {
			z.Files[p] = string(make([]byte, len(c)))
			nz++
		}
	}
	if nz > 0 {
		img.Kind, img.Snap = "pl-zero", z
		cr.add(img)
	}
	// pl-mixed: each file independently durable or current (all unsynced data reached the disk for that file)
	differs := false
	for p, c := range cur.Files {
		if dc, ok := d.Files[p]; !ok || dc != c {
			differs = true
		}
	}
	if differs {
		for rep := 0; rep < 2; rep++ {
			mx := &Snapshot{Dirs: cur.Dirs, Files: map[string]string{}}
			paths := make([]string, 0, len(cur.Files))
			for p := range cur.Files {
				paths = append(paths, p)
			}
			sort.Strings(paths)
			for _, p := range paths {
				dc, synced := d.Files[p]
				switch {
				case cr.Rng.Intn(2) == 0:
					mx.Files[p] = cur.Files[p]
				case synced:
					mx.Files[p] = dc
				}
			}
			img.Kind, img.Snap = "pl-mixed", mx
			cr.add(img)
		}
	}
	// pl-torn: durable everywhere, but the last unsynced write of one file reached the disk partially
	for p, w := range cr.lastUnsync {
		dc, synced := d.Files[p]
		if !synced || len(w.Data) < 2 {
			continue
		}
		lens := tornLengths(w.Data, strings.HasSuffix(p, ".dat"))
		n := lens[cr.Rng.Intn(len(lens))]
		t := d.clone()
		t.Files[p] = applyWrite(dc, w.Off, w.Data, n)
		img.Kind, img.Snap, img.TornLen = "pl-torn", t, n
		cr.add(img)
	}
	// removal undone: data files the library has removed (and whose removal no directory sync has made durable)
	// come back with their durable content - each one alone, and all of them together
	var gone []string
	for p := range cr.durable {
		if _, still := cur.Files[p]; !still && strings.HasSuffix(p, ".dat") {
			gone = append(gone, p)
		}
	}
	sort.Strings(gone)
	all := d.clone()
	for _, p := range gone {
		u := d.clone()
		u.Files[p] = cr.durable[p]
		all.Files[p] = cr.durable[p]
		img.Kind, img.Snap, img.TornLen = "pl-unremoved", u, 0
		cr.add(img)
	}
	if len(gone) > 1 {
		img.Kind, img.Snap, img.TornLen = "pl-unremoved", all, 0
		cr.add(img)
	}
}

// PushState records the model observation after a finished step.
func (cr *CrashRec) PushState(obs []string) { cr.States = append(cr.States, obs) }

// PushModel records the model after a finished step (observation + the model itself).
func (cr *CrashRec) PushModel(m *Model, u *Universe) {
	cr.States = append(cr.States, obsModel(m, u))
	for len(cr.Models) < len(cr.States)-1 {
		cr.Models = append(cr.Models, nil)
	}
	cr.Models = append(cr.Models, m.Clone())
}

func (cr *CrashRec) immediateContinuation(snap *Snapshot, ev *FSEvent) {
	c := cr.C
	dir := c.Dir(fmt.Sprintf("imm%d", cr.immediate))
	defer os.RemoveAll(dir)
	if err := snap.Materialize(dir); err != nil {
		return
	}
	class := "crash-second-handle"
	u, cfg := cr.U, cr.Cfg
	m := cr.Models[cr.cur].Clone()
	k := u.KVKeys[cr.Rng.Intn(len(u.KVKeys))]
	t := TxSpec{Mode: "update", Ops: []Op{{K: "Put", B: u.Buckets[0], Key: k, Val: []byte(fmt.Sprintf("second-handle-%d", cr.immediate))}}}
	db, err := openNoPanic(cfg.Options(dir))
	var out TxOut
	if err == nil {
		out = execTx(db, t)
	}
	// (the time-critical part is over)
	c.Stat("immediate_continuations", 1)
	where := fmt.Sprintf("the image before event #%d %s %s (second record or later of the commit of step %d), opened at once by a second handle (%s)", ev.Seq, ev.Op, ev.Path, cr.cur+1, cfg)
	if err != nil {
		c.Violate("open-failed:"+errClass(err.Error()), class, "Open failed on "+where+": "+err.Error())
		return
	}
	if out.Err != nil || out.Panic != "" {
		db.Close()
		c.Violate("commit-error", class, fmt.Sprintf("commit failed on %s: %v %s", where, out.Err, out.Panic))
		return
	}
	m.Apply(t.Ops[0], out.Res[0])
	db.Close()
	db2, err := openNoPanic(cfg.Options(dir))
	if err != nil {
		c.Violate("reopen-failed:"+errClass(err.Error()), class, "second Open failed on "+where+": "+err.Error())
		return
	}
	got, oerr := obsReal(db2, u)
	db2.Close()
	if oerr != nil {
		return
	}
	if want := obsModel(m, u); !sameObs(got, want) {
		c.Violate("obs:after-second-handle-commit:"+firstDiffCall(got, want), class,
			fmt.Sprintf("%s committed %s; after Close and Open the contents are not the committed prefix plus that transaction (records of the interrupted transaction became visible?):\n%s", where, t.String(), diffObs(got, want)))
	}
}

// continueOn uses a recovered image the way an application would after a crash: more write transactions (sized
// so that the segment the crash interrupted is rotated away), a clean Close and another Open. With a model
// (the recovered state was identified) every call and the final observations are compared with it; without one
// only panics and the success of the second Open are judged. Takes ownership of db.
func (cr *CrashRec) continueOn(cfg Cfg, u *Universe, db *nutsdb.DB, dir string, m *Model, class, where string) {
	c := cr.C
	strict := m != nil
	run := &Runner{C: c, Cfg: cfg, Dir: dir, U: u, DB: db, M: NewModel(), Class: class + "-continued"}
	if strict {
		run.M = m.Clone()
	}
	ds := cfg.Mode == 0 && u.DS
	g := &Gen{R: cr.Rng, U: u, Cfg: cfg, KV: true, List: ds, Set: ds, ZSet: ds, TTL: true, MaxOps: 4, BigVals: true, M: run.M}
	c.Log("continuing on %s", where)
	c.Stat("images_continued", 1)
	// stage 1 (every other continuation): the shortest possible record first (it lands where the interrupted record
	// began, so bytes of a torn record stay behind it), then Close and Open at once - before later records overwrite
	// those bytes. The other continuations go straight to stage 2, so that the interrupted segment is also rotated
	// away exactly as the crash left it.
	if cr.continued%2 == 0 {
		k := u.KVKeys[0]
		for _, kk := range u.KVKeys {
			if len(kk) < len(k) {
				k = kk
			}
		}
		t := TxSpec{Mode: "update", Ops: []Op{{K: "Put", B: u.Buckets[0], Key: k}}}
		if strict {
			run.Tx(t, false)
		} else {
			c.Log("tx %s", t.String())
			if out := execTx(db, t); out.Panic != "" {
				c.Violate("panic:tx:"+out.Panic, run.Class, fmt.Sprintf("panic in %s while continuing on %s: %s", t.String(), where, out.Panic))
				return
			}
		}
		if run.Dead {
			return
		}
		if err := db.Close(); err != nil {
			c.Violate("close-failed", run.Class, fmt.Sprintf("Close failed while continuing on %s: %v", where, err))
			return
		}
		db1, err := openNoPanic(cfg.Options(dir))
		if err != nil {
			c.Violate("reopen-failed:"+errClass(err.Error()), run.Class, fmt.Sprintf("the directory recovered from %s got one more small committed record and was closed cleanly; Open then failed: %v", where, err))
			return
		}
		db, run.DB = db1, db1
		if strict {
			run.CheckObs("continued-short-record-reopen")
		}
	}
	n := 3 + cr.Rng.Intn(6)
	for i := 0; i < n && !run.Dead; i++ {
		g.M = run.M
		t := g.WriteTx(true)
		if strict {
			run.Tx(t, false)
			continue
		}
		c.Log("tx %s", t.String())
		out := execTx(db, t)
		if out.Panic != "" {
			c.Violate("panic:tx:"+out.Panic, run.Class, fmt.Sprintf("panic in %s while continuing on %s: %s", t.String(), where, out.Panic))
			run.Dead = true
		}
		for j, o := range t.Ops {
			if j < len(out.Res) && out.Committed {
				run.M.Apply(o, out.Res[j]) // steering only
			}
		}
	}
	if run.Dead {
		return
	}
	if strict {
		run.CheckObs("continued")
	}
	files := countDataFiles(dir)
	if err := db.Close(); err != nil {
		c.Violate("close-failed", run.Class, fmt.Sprintf("Close failed while continuing on %s: %v", where, err))
		return
	}
	db2, err := openNoPanic(cfg.Options(dir))
	if err != nil {
		c.Violate("reopen-failed:"+errClass(err.Error()), run.Class, fmt.Sprintf("the directory recovered from %s was used for %d more transactions (%d data files) and closed cleanly; Open then failed: %v", where, n, files, err))
		return
	}
	run.DB = db2
	if strict {
		run.CheckObs("continued-reopen")
	}
	db2.Close()
}

func openNoPanic(opt nutsdb.Options) (db *nutsdb.DB, err error) {
	defer func() {
		if p := recover(); p != nil {
			err = fmt.Errorf("PANIC %s @%s", panicClass(p), firstRepoFrame(string(debug.Stack())))
		}
	}()
	return nutsdb.Open(opt)
}

// errClass turns an error text into a stable template (numbers and quoted parts stripped).
func errClass(s string) string {
	s = panicClass(s)
	if len(s) > 120 {
		s = s[:120]
	}
	return s
}

// CheckImages opens every image with the real Open and applies the oracle.
// mode "open": only Open's success is judged (C09). mode "state": also the recovered state (C10/C11/C16).
func (cr *CrashRec) CheckImages(cfg Cfg, u *Universe, mode string, class string) {
	dir := cr.C.Dir("image")
	for i := range cr.Images {
		img := &cr.Images[i]
		os.RemoveAll(dir)
		if err := img.Snap.Materialize(dir); err != nil {
			cr.C.Inconclusive("could not materialize image: " + err.Error())
			continue
		}
		cr.C.Stat("images_opened", 1)
		cr.C.Stat("images_"+img.Kind, 1)
		where := fmt.Sprintf("%s image before event #%d %s %s off=%d len=%d torn=%d (step %d in flight=%v, %s)",
			img.Kind, img.Ev.Seq, img.Ev.Op, img.Ev.Path, img.Ev.Off, len(img.Ev.Data), img.TornLen, img.Cur+1, img.InFl, cfg)
		violBefore := len(cr.C.res.Viol)
		matched := -1
		db, err := openNoPanic(cfg.Options(dir))
		if err != nil {
			cr.C.Violate("image-open-failed:"+imgKindClass(img.Kind)+":"+errClass(err.Error()), class, fmt.Sprintf("Open failed on %s: %v", where, err))
			continue
		}
		if mode == "state" {
			got, oerr := obsReal(db, u)
			if oerr != nil {
				cr.C.Violate("image-obs-error:"+imgKindClass(img.Kind), class, fmt.Sprintf("observation failed on %s: %v", where, oerr))
			} else {
				ok := sameObs(got, cr.States[img.Cur])
				if ok {
					matched = img.Cur
				}
				if !ok && img.InFl && img.Cur+1 < len(cr.States) {
					ok = sameObs(got, cr.States[img.Cur+1])
					if ok {
						matched = img.Cur + 1
					}
				}
				if !ok {
					want := cr.States[img.Cur]
					alt := ""
					if img.InFl && img.Cur+1 < len(cr.States) {
						alt = "\n(or, with the in-flight step applied in full)\n" + diffObs(got, cr.States[img.Cur+1])
					}
					cr.C.Violate("image-state:"+imgKindClass(img.Kind)+":"+firstDiffCall(got, want), class,
						fmt.Sprintf("recovered state of %s is neither the state before the in-flight step nor after it:\n%s%s", where, diffObs(got, want), alt))
				}
			}
		}
		// use some of the recovered images further: torn images first (the interrupted record is still in the file)
		nViol := len(cr.C.res.Viol)
		fresh := img.Fresh && cr.freshCont < 4 && nViol == violBefore
		if !fresh && img.RootPend && len(cr.rootCont) < 8 && !cr.rootCont[img.Cur] && nViol == violBefore {
			// the key range persisted for the interrupted segment includes keys of the interrupted transaction: go on
			// until that segment is rotated a second time (its root-index record is then rewritten in place)
			fresh = true
			if cr.rootCont == nil {
				cr.rootCont = map[int]bool{}
			}
			cr.rootCont[img.Cur] = true // one image per interrupted rotation
			cr.freshCont--
			cr.C.Stat("images_continued_after_an_interrupted_rotation", 1)
		}
		if fresh || cr.continued < cr.ContinueMax && nViol == violBefore && (img.Kind == "torn" && cr.Rng.Intn(2) == 0 || cr.Rng.Intn(12) == 0) {
			cr.continued++
			if fresh {
				// a segment that holds nothing but records of the interrupted transaction: continue without the short
				// first record (stage 1), so that the segment is rotated away without a single committed record in it
				cr.freshCont++
				if cr.continued%2 == 0 {
					cr.continued++
				}
				cr.C.Stat("images_continued_on_a_segment_of_uncommitted_records_only", 1)
			}
			var m *Model
			if mode == "state" && matched >= 0 && matched < len(cr.Models) {
				m = cr.Models[matched]
			}
			if cfg.Mode == 2 {
				// sparse mode: a recovered image that reads like a committed prefix can still carry records of the
				// interrupted transaction outside the persisted key range (recorded finding KF-SPARSE-CRASH); they
				// surface when later commits widen the range. The continuation there judges panics and the second
				// Open only, not values.
				m = nil
			}
			if mode == "open" || m != nil || cfg.Mode == 2 {
				cr.continueOn(cfg, u, db, dir, m, class, where)
				db = nil
			}
		}
		if db != nil {
			db.Close()
		}
		if cr.C.Unexplained() >= 8 {
			break
		}
	}
	os.RemoveAll(dir)
}

func imgKindClass(k string) string {
	if k == "pl-unremoved" {
		return "power-loss-unremoved"
	}
	if strings.HasPrefix(k, "pl-") {
		return "power-loss"
	}
	return k
}
