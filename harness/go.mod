module verifharness

go 1.13

require (
	github.com/anishathalye/porcupine v1.3.0
	github.com/xujiajun/nutsdb v0.0.0
)

replace github.com/xujiajun/nutsdb => /repo

replace golang.org/x/sys v0.0.0-20181221143128-b4a75ba826a6 => github.com/golang/sys v0.0.0-20181221143128-b4a75ba826a6
