package main

import (
	"crypto/sha256"
	"fmt"
	"sort"
	"strconv"
	"strings"
)

// Op is one API call of a history. Only the fields an operation kind uses are set.
type Op struct {
	K    string   `json:"k"`
	B    string   `json:"b"`
	Key  []byte   `json:"key,omitempty"`
	Val  []byte   `json:"val,omitempty"`
	B2   string   `json:"b2,omitempty"`
	Key2 []byte   `json:"key2,omitempty"`
	Vals [][]byte `json:"vals,omitempty"`
	TTL  uint32   `json:"ttl,omitempty"`
	TS   uint64   `json:"ts,omitempty"`
	I    int      `json:"i,omitempty"`
	J    int      `json:"j,omitempty"`
	F    float64  `json:"f,omitempty"`
	F2   float64  `json:"f2,omitempty"`
	Re   string   `json:"re,omitempty"`
	// score range options (ZRangeByScore / ZCount); HasOpt false = nil options
	HasOpt bool `json:"hasopt,omitempty"`
	Limit  int  `json:"limit,omitempty"`
	ExS    bool `json:"exs,omitempty"`
	ExE    bool `json:"exe,omitempty"`
}

// q renders a byte string. Long ones (large-geometry cases write values of tens of kilobytes) are shown as their
// first bytes plus length and SHA-256 prefix: comparisons of rendered results stay exact, logs stay readable.
func q(b []byte) string {
	if len(b) <= 96 {
		return strconv.Quote(string(b))
	}
	h := sha256.Sum256(b)
	return strconv.Quote(string(b[:24])) + fmt.Sprintf("...(len=%d,sha256=%x)", len(b), h[:8])
}

func qs(bs [][]byte) string {
	parts := make([]string, len(bs))
	for i, b := range bs {
		parts[i] = q(b)
	}
	return "[" + strings.Join(parts, ",") + "]"
}

func fl(f float64) string { return strconv.FormatFloat(f, 'g', -1, 64) }

func (o Op) String() string {
	switch o.K {
	case "Put":
		return fmt.Sprintf("Put(%q,%s,%s,ttl=%d)", o.B, q(o.Key), q(o.Val), o.TTL)
	case "PutTS":
		return fmt.Sprintf("PutWithTimestamp(%q,%s,%s,ttl=%d,ts=%d)", o.B, q(o.Key), q(o.Val), o.TTL, o.TS)
	case "Delete", "Get", "RPop", "LPop", "RPeek", "LPeek", "LSize", "SPop", "SMembers", "SCard", "SHasKey",
		"ZRem", "ZRank", "ZRevRank", "ZScore", "ZGetByKey":
		return fmt.Sprintf("%s(%q,%s)", o.K, o.B, q(o.Key))
	case "GetAll", "ZPopMax", "ZPopMin", "ZPeekMax", "ZPeekMin", "ZCard", "ZMembers":
		return fmt.Sprintf("%s(%q)", o.K, o.B)
	case "RangeScan":
		return fmt.Sprintf("RangeScan(%q,%s,%s)", o.B, q(o.Key), q(o.Key2))
	case "PrefixScan":
		return fmt.Sprintf("PrefixScan(%q,%s,off=%d,lim=%d)", o.B, q(o.Key), o.I, o.J)
	case "PrefixSearchScan":
		return fmt.Sprintf("PrefixSearchScan(%q,%s,%q,off=%d,lim=%d)", o.B, q(o.Key), o.Re, o.I, o.J)
	case "RPush", "LPush", "SAdd", "SRem", "SAreMembers":
		return fmt.Sprintf("%s(%q,%s,%s)", o.K, o.B, q(o.Key), qs(o.Vals))
	case "LRange", "LTrim":
		return fmt.Sprintf("%s(%q,%s,%d,%d)", o.K, o.B, q(o.Key), o.I, o.J)
	case "LRem":
		return fmt.Sprintf("LRem(%q,%s,count=%d,%s)", o.B, q(o.Key), o.I, q(o.Val))
	case "LSet":
		return fmt.Sprintf("LSet(%q,%s,%d,%s)", o.B, q(o.Key), o.I, q(o.Val))
	case "SIsMember":
		return fmt.Sprintf("SIsMember(%q,%s,%s)", o.B, q(o.Key), q(o.Val))
	case "SDiff1", "SUnion1":
		return fmt.Sprintf("%sByOneBucket(%q,%s,%s)", o.K[:len(o.K)-1], o.B, q(o.Key), q(o.Key2))
	case "SDiff2", "SUnion2":
		return fmt.Sprintf("%sByTwoBuckets(%q,%s,%q,%s)", o.K[:len(o.K)-1], o.B, q(o.Key), o.B2, q(o.Key2))
	case "SMove1":
		return fmt.Sprintf("SMoveByOneBucket(%q,%s,%s,%s)", o.B, q(o.Key), q(o.Key2), q(o.Val))
	case "SMove2":
		return fmt.Sprintf("SMoveByTwoBuckets(%q,%s,%q,%s,%s)", o.B, q(o.Key), o.B2, q(o.Key2), q(o.Val))
	case "ZAdd":
		return fmt.Sprintf("ZAdd(%q,%s,%s,%s)", o.B, q(o.Key), fl(o.F), q(o.Val))
	case "ZRemRangeByRank", "ZRangeByRank":
		return fmt.Sprintf("%s(%q,%d,%d)", o.K, o.B, o.I, o.J)
	case "ZRangeByScore", "ZCount":
		opt := "nil"
		if o.HasOpt {
			opt = fmt.Sprintf("{Limit:%d,ExS:%v,ExE:%v}", o.Limit, o.ExS, o.ExE)
		}
		return fmt.Sprintf("%s(%q,%s,%s,%s)", o.K, o.B, fl(o.F), fl(o.F2), opt)
	}
	return fmt.Sprintf("%s(?)", o.K)
}

// Res is the canonical outcome of one real call.
type Res struct {
	Err   bool   `json:"err,omitempty"`
	V     string `json:"v,omitempty"`
	Panic string `json:"panic,omitempty"`
	ErrS  string `json:"errs,omitempty"` // error text, informational only
}

func (r Res) String() string {
	if r.Panic != "" {
		return "PANIC(" + r.Panic + ")"
	}
	if r.Err {
		return "ERR(" + r.ErrS + ")"
	}
	return r.V
}

// Exp is what the reference model allows for one call.
type Exp struct {
	Err    bool            // the call must fail
	ErrOK  bool            // the call may fail (then it must not change anything)
	V      string          // value required when it succeeds
	Alts   []string        // other acceptable values
	PopAny map[string]bool // SPop: any of these members (canonical quoted) is acceptable
}

func (e Exp) String() string {
	if e.Err {
		return "ERR"
	}
	s := e.V
	if e.PopAny != nil {
		var ks []string
		for k := range e.PopAny {
			ks = append(ks, k)
		}
		sort.Strings(ks)
		s = "oneof{" + strings.Join(ks, ",") + "}"
	}
	for _, a := range e.Alts {
		s += " | " + a
	}
	if e.ErrOK {
		s += " | ERR"
	}
	return s
}

// Accepts decides whether a real outcome is allowed, and names the deviation kind if not.
func (e Exp) Accepts(r Res) (bool, string) {
	if r.Panic != "" {
		return false, "panic"
	}
	if r.Err {
		if e.Err || e.ErrOK {
			return true, ""
		}
		return false, "error-instead-of-value"
	}
	if e.Err {
		return false, "value-instead-of-error"
	}
	if e.PopAny != nil {
		if e.PopAny[r.V] {
			return true, ""
		}
		return false, "foreign-value"
	}
	if r.V == e.V {
		return true, ""
	}
	for _, a := range e.Alts {
		if r.V == a {
			return true, ""
		}
	}
	return false, "wrong-value"
}

type kvPair struct{ K, V []byte }

func pairsStr(ps []kvPair) string {
	parts := make([]string, len(ps))
	for i, p := range ps {
		parts[i] = q(p.K) + "=" + q(p.V)
	}
	return "[" + strings.Join(parts, ",") + "]"
}

type zNode struct {
	K string
	S float64
	V []byte
}

func zStr(ns []zNode) string {
	parts := make([]string, len(ns))
	for i, n := range ns {
		parts[i] = "(" + strconv.Quote(n.K) + "," + fl(n.S) + "," + q(n.V) + ")"
	}
	return "[" + strings.Join(parts, ",") + "]"
}

func zOne(n *zNode) string {
	if n == nil {
		return "nil"
	}
	return "(" + strconv.Quote(n.K) + "," + fl(n.S) + "," + q(n.V) + ")"
}

func sortedQs(bs [][]byte) string {
	ss := make([]string, len(bs))
	for i, b := range bs {
		ss[i] = q(b)
	}
	sort.Strings(ss)
	return "[" + strings.Join(ss, ",") + "]"
}

var readOnlyKinds = map[string]bool{
	"Get": true, "GetAll": true, "RangeScan": true, "PrefixScan": true, "PrefixSearchScan": true,
	"RPeek": true, "LPeek": true, "LSize": true, "LRange": true,
	"SIsMember": true, "SAreMembers": true, "SMembers": true, "SCard": true, "SHasKey": true,
	"SDiff1": true, "SDiff2": true, "SUnion1": true, "SUnion2": true,
	"ZPeekMax": true, "ZPeekMin": true, "ZRangeByScore": true, "ZRangeByRank": true, "ZRank": true, "ZRevRank": true,
	"ZScore": true, "ZGetByKey": true, "ZCount": true, "ZCard": true, "ZMembers": true,
}

// blindKinds are writes whose acceptance and effect do not depend on the committed state.
var blindKinds = map[string]bool{
	"Put": true, "PutTS": true, "Delete": true, "RPush": true, "LPush": true, "SAdd": true, "SRem": true, "ZAdd": true,
}

func dsOf(kind string) string {
	switch kind {
	case "Put", "PutTS", "Delete", "Get", "GetAll", "RangeScan", "PrefixScan", "PrefixSearchScan":
		return "kv"
	case "RPush", "LPush", "RPop", "LPop", "RPeek", "LPeek", "LSize", "LRange", "LRem", "LSet", "LTrim":
		return "list"
	}
	if strings.HasPrefix(kind, "S") {
		return "set"
	}
	if strings.HasPrefix(kind, "Z") {
		return "zset"
	}
	return "?"
}
