package main

import (
	"fmt"
	"sort"
)

// readsFor returns read operations that look at the structure op o touches.
func readsFor(g *Gen, o Op) []Op {
	switch dsOf(o.K) {
	case "kv":
		return []Op{{K: "Get", B: o.B, Key: o.Key}, {K: "GetAll", B: o.B}, {K: "PrefixScan", B: o.B, Key: o.Key[:1], J: -1}}
	case "list":
		return []Op{{K: "LRange", B: o.B, Key: o.Key, I: 0, J: -1}, {K: "LSize", B: o.B, Key: o.Key}, {K: "LPeek", B: o.B, Key: o.Key}, {K: "RPeek", B: o.B, Key: o.Key}}
	case "set":
		return []Op{{K: "SMembers", B: o.B, Key: o.Key}, {K: "SCard", B: o.B, Key: o.Key}, {K: "SIsMember", B: o.B, Key: o.Key, Val: g.member()}}
	case "zset":
		return []Op{{K: "ZRangeByRank", B: o.B, I: 1, J: -1}, {K: "ZCard", B: o.B}, {K: "ZPeekMax", B: o.B}, {K: "ZPeekMin", B: o.B}, {K: "ZScore", B: o.B, Key: g.zKey()}}
	}
	return nil
}

func runC13(c *CaseCtx) {
	r := c.Rng
	cfg := randCfg(r, []int{0, 0, 0, 1, 2}, 200, 900)
	ds := cfg.Mode == 0
	class := "multi-op"
	nb := 2
	if cfg.Mode == 2 {
		nb = 1
		class += "-sparse"
	}
	nKeys := 5 + r.Intn(6)
	if c.Case%3 == 0 {
		nKeys = 18 + r.Intn(14) // enough distinct keys for a transaction that fills whole segments with keys it writes once
	}
	u := defaultUniverse(r, nb, nKeys, ds)
	run := NewRunner(c, cfg, u, class)
	c.Log("cfg %s buckets=%v", cfg, u.Buckets)
	if !run.Open() {
		return
	}
	defer run.Close()
	g := &Gen{R: r, U: u, Cfg: cfg, KV: true, List: ds, Set: ds, ZSet: ds, MaxOps: 5}
	if cfg.Mode != 2 && c.Case%5 == 1 {
		// every transaction of this history runs on a handle that has already merged (before any of the history's
		// buckets and structures existed)
		preMergeHandle(c, run.DB, cfg) // (same scenario class: the recorded committed-view finding is the same on such a handle)
	}
	drainAt := -1
	if cfg.Mode != 2 && c.Case%5 == 3 {
		// half way one bucket is emptied, the database merged, the same keys put again (no lists and no positional
		// sorted-set removals in such a history: what Merge does to those is the recorded finding of C15/C16)
		g.List, g.NoZPop = false, true
	}
	ntx := 15 + r.Intn(tier(c.Tier, 20, 60))
	if cfg.Mode != 2 && c.Case%5 == 3 {
		drainAt = ntx / 2
	}
	selfReads := 0
	for i := 0; i < ntx && !run.Dead; i++ {
		g.M = run.M
		if i == drainAt {
			if !drainMergeReput(run, g, class) {
				break
			}
			g.M = run.M
		}
		t := g.WriteTx(false)
		if tpl := c13Template(g, g.List); tpl != nil && r.Intn(4) == 0 {
			t.Ops = tpl
			c.Stat("remove_readd_pop_templates", 1)
		} else if r.Intn(8) == 0 {
			// one transaction larger than a segment: its records span several files (segments that hold nothing but
			// records of this transaction), later transactions rotate further
			var ops []Op
			b := g.bucket()
			if r.Intn(3) == 0 {
				// ... or made of many small records (70-130) that write the same few keys again and again: the last
				// write of each key has to win
				n := 70 + r.Intn(60)
				for i := 0; i < n; i++ {
					k := u.KVKeys[r.Intn(min(len(u.KVKeys), 6))]
					if r.Intn(6) == 0 {
						ops = append(ops, Op{K: "Delete", B: b, Key: k})
					} else {
						g.ctr++
						ops = append(ops, Op{K: "Put", B: b, Key: k, Val: []byte(fmt.Sprintf("s%d", g.ctr))})
					}
				}
			}
			perm := r.Perm(len(u.KVKeys))
			if len(ops) > 0 {
				perm = nil
			}
			for need, i := int(cfg.Seg)*(1+r.Intn(3)), 0; need > 0 && len(ops) <= 90 && perm != nil; i++ {
				var o Op
				if i < len(perm) { // every key once first: the newest version of a key may then lie in a middle segment
					k := u.KVKeys[perm[i]]
					o = Op{K: "Put", B: b, Key: k, Val: g.value(b, len(k))}
				} else {
					o = g.kvWrite()
				}
				ops = append(ops, o)
				need -= 42 + len(o.B) + len(o.Key) + len(o.Val)
			}
			t.Ops = ops
			c.Stat("transactions_larger_than_a_segment", 1)
		}
		// make the transaction look at what it just did
		var ops []Op
		for _, o := range t.Ops {
			ops = append(ops, o)
			if r.Intn(2) == 0 {
				rs := readsFor(g, o)
				ops = append(ops, rs[r.Intn(len(rs))])
				selfReads++
			}
			if r.Intn(4) == 0 && !blindKinds[o.K] {
				ops = append(ops, o) // the same pop / trim / set again
			}
		}
		t.Ops = ops
		unexplained, fatal := twoModelTx(run, t, class, true)
		if fatal {
			break
		}
		if unexplained {
			break
		}
		if r.Intn(12) == 0 {
			if !run.Reopen() || !run.CheckObs("after-reopen") {
				break
			}
		}
	}
	c.Stat("histories", 1)
	c.Stat("self_reads", int64(selfReads))
	c.Nontrivial(selfReads >= 5)
	if c.Case < 2 {
		c.Sample(map[string]interface{}{"config": cfg.String(), "transactions": run.NTx, "self_reads": selfReads, "first_steps": firstLines(c.hist, 4)})
	}
}

// c13Template builds a transaction of the shape "remove an element, put it back, then pop / read it": every step is
// valid on the committed state AND on the sequential state, so the known committed-view finding cannot explain a
// deviation in it, and bookkeeping a transaction keeps about its own earlier operations (pending removals, cached
// positions) is exercised.
func c13Template(g *Gen, ds bool) []Op {
	r, b := g.R, g.bucket()
	kinds := []string{"kv"}
	if ds {
		kinds = append(kinds, "set", "set", "zset", "list")
	}
	switch kinds[r.Intn(len(kinds))] {
	case "kv":
		lk := g.liveKeys(b)
		if len(lk) == 0 {
			return nil
		}
		k := g.pick(lk)
		return []Op{{K: "Delete", B: b, Key: k}, {K: "Put", B: b, Key: k, Val: g.value(b, len(k))}, {K: "Get", B: b, Key: k}}
	case "set":
		key := g.pick(g.U.SetKeys)
		var ms []string
		for m := range g.M.S[b][string(key)] {
			ms = append(ms, m)
		}
		if len(ms) == 0 {
			return nil
		}
		sort.Strings(ms)
		m := []byte(ms[r.Intn(len(ms))])
		var ops []Op
		// shrink the set to {m} first (in the same transaction) in half of the cases, so that the final pop has one candidate
		if r.Intn(2) == 0 {
			for _, x := range ms {
				if x != string(m) {
					ops = append(ops, Op{K: "SRem", B: b, Key: key, Vals: [][]byte{[]byte(x)}})
				}
			}
		}
		switch r.Intn(3) {
		case 0:
			ops = append(ops, Op{K: "SRem", B: b, Key: key, Vals: [][]byte{m}})
		case 1:
			if len(ms) == 1 {
				ops = append(ops, Op{K: "SPop", B: b, Key: key})
			} else {
				ops = append(ops, Op{K: "SRem", B: b, Key: key, Vals: [][]byte{m}})
			}
		default:
			ops = append(ops, Op{K: "SMove1", B: b, Key: key, Key2: key, Val: m})
		}
		ops = append(ops, Op{K: "SAdd", B: b, Key: key, Vals: [][]byte{m}})
		switch r.Intn(3) {
		case 0:
			ops = append(ops, Op{K: "SPop", B: b, Key: key})
		case 1:
			ops = append(ops, Op{K: "SIsMember", B: b, Key: key, Val: m})
		default:
			ops = append(ops, Op{K: "SMembers", B: b, Key: key})
		}
		return ops
	case "zset":
		ns := g.M.zsorted(b)
		if len(ns) < 2 {
			return nil
		}
		i, j := r.Intn(len(ns)), r.Intn(len(ns))
		g.ctr++
		ops := []Op{{K: "ZAdd", B: b, Key: []byte(ns[i].K), F: ns[j].S, Val: []byte(fmt.Sprintf("z%d", g.ctr))}}
		ops = append(ops, Op{K: []string{"ZPopMax", "ZPopMin", "ZPeekMax", "ZPeekMin"}[r.Intn(4)], B: b}, Op{K: "ZRangeByRank", B: b, I: 1, J: -1})
		return ops
	default:
		key := g.pick(g.U.ListKeys)
		l := g.M.L[b][string(key)]
		if len(l) == 0 {
			return nil
		}
		if r.Intn(2) == 0 {
			return []Op{{K: "LPop", B: b, Key: key}, {K: "LPush", B: b, Key: key, Vals: [][]byte{l[0]}}, {K: "LPop", B: b, Key: key}}
		}
		return []Op{{K: "RPop", B: b, Key: key}, {K: "RPush", B: b, Key: key, Vals: [][]byte{l[len(l)-1]}}, {K: "RPeek", B: b, Key: key}}
	}
}

// twoModelTx executes one multi-operation write transaction and judges it against two executable models: the
// sequential one (operations run one after another on the state at the start) and the alternative model of the
// recorded finding KF-C13-COMMITTED-VIEW (every call evaluated on the state committed at the start; logged
// operations applied in order at Commit, those no longer valid skipped).  A deviation the alternative model
// reproduces exactly is "explained" (reported as that finding only when reportExplained is set - i.e. by C13);
// anything else is an unexplained violation of the caller's class.  Returns (unexplained, fatal).
func twoModelTx(run *Runner, t TxSpec, class string, reportExplained bool) (unexplained bool, fatal bool) {
	c, u, cfg := run.C, run.U, run.Cfg
	run.NTx++
	c.Log("tx %d %s", run.NTx, t.String())
	out := execTx(run.DB, t)
	c.Stat("transactions", 1)
	c.Stat("api_calls_compared", int64(len(out.Res)))
	if out.Panic != "" {
		c.Violate("panic:tx:"+out.Panic, class, fmt.Sprintf("panic in %s: %s\n%s", t.String(), out.Panic, firstN(out.Stack, 1200)))
		run.Dead = true
		return false, true
	}
	if out.Err != nil {
		c.Violate("commit-error:"+errClass(out.Err.Error()), class, fmt.Sprintf("transaction %s failed: %v", t.String(), out.Err))
		return false, true
	}
	txStart := run.M
	seq, alt := run.M.Clone(), run.M.Clone()
	for j, o := range t.Ops {
		got := out.Res[j]
		exp := seq.Expect(o, true)
		if ok, kind := exp.Accepts(got); !ok {
			// alternative model of the known finding: the call was evaluated on the state committed at the
			// start of the transaction, ignoring the transaction's own earlier operations
			altExp := txStart.Expect(o, true)
			if ok2, _ := altExp.Accepts(got); ok2 && got.Panic == "" {
				c.Stat("explained_by_committed_state_reads", 1)
				if reportExplained {
					c.Violate("alt-model:operations-evaluated-on-committed-state", class,
						fmt.Sprintf("%s (operation %d of %s): got %s; running the operations one after another gives %s; evaluated on the state at the start of the transaction it gives %s", o.String(), j+1, t.String(), got.String(), exp.String(), altExp.String()))
				}
			} else {
				sig := "call:" + o.K + ":" + kind
				if got.Panic != "" {
					sig = "panic:" + o.K + ":" + got.Panic
				}
				c.Violate(sig, class, fmt.Sprintf("%s (operation %d of %s): got %s; sequential model allows %s; committed-state model allows %s", o.String(), j+1, t.String(), got.String(), exp.String(), altExp.String()))
				unexplained = true
			}
		}
		seq.Apply(o, got)
		alt.ApplyCommitTime(o, got)
	}
	got, err := obsReal(run.DB, u)
	if err != nil {
		c.Violate("obs-view-error", class, err.Error())
		return false, true
	}
	c.Stat("observations", 1)
	switch {
	case sameObs(got, obsModel(seq, u)):
		run.M = seq
	case sameObs(got, obsModel(alt, u)):
		run.M = alt
		c.Stat("explained_by_commit_time_skips", 1)
		if reportExplained {
			c.Violate("alt-model:operations-evaluated-on-committed-state", class,
				fmt.Sprintf("state after %s is not the sequential one but the one obtained when operations that were accepted against the committed state are skipped at apply time:\n%s", t.String(), diffObs(got, obsModel(seq, u))))
		}
	default:
		c.Violate("obs:after-multi-op-commit:"+firstDiffCall(got, obsModel(seq, u)), class,
			fmt.Sprintf("state after %s (%s) matches neither the sequential model nor the known-finding model:\n%s", t.String(), cfg, diffObs(got, obsModel(seq, u))))
		unexplained = true
	}
	return unexplained, false
}

func unexplainedViolations(c *CaseCtx) int {
	n := 0
	for _, v := range c.res.Viol {
		if !containsStr(v.Sig, "alt-model:") {
			n++
		}
	}
	return n
}

func containsStr(s, sub string) bool {
	for i := 0; i+len(sub) <= len(s); i++ {
		if s[i:i+len(sub)] == sub {
			return true
		}
	}
	return false
}

func init() {
	register(&Check{
		ID: "C13", Level: "exploration",
		NCases: func(t string) int { return tier(t, 200, 1500) },
		Run:    runC13,
		Rule: "[also: a fifth of the RAM-mode histories run on a handle that merged before the history; a fifth drain a bucket, merge and re-put half way (list-free)] case = seeded history of multi-operation write transactions (2-12 operations over KV, lists, sets, sorted sets in KeyVal mode; KV in KeyOnly/sparse) that deliberately read, peek and pop the structures they have just modified and repeat pops/trims; every returned value and the full observation after the commit are compared with running the operations one after another on the state at the start; " +
			"a mismatch is classified by an executable alternative model (call evaluated on the state committed at transaction start) - only an exact match is attributed to the known finding; non-trivial = >=5 self-reads in the history; distinct by history hash",
		Assumptions: []string{"sequential reference model as in C01/C05-C07"},
		Floor: func(t string, a map[string]int64) string {
			if a["self_reads"] < 500 {
				return "too few self-reads"
			}
			return ""
		},
	})
}

func min(a, b int) int {
	if a < b {
		return a
	}
	return b
}
