#!/usr/bin/env python3
"""Regenerates /verif/MANIFEST.json from the table below (keeps it schema-valid at all times)."""
import json, os, subprocess, sys

ROOT = os.path.dirname(os.path.dirname(os.path.abspath(__file__)))

# id -> (engine, level, technique, level text, level note)
T = {
 "C02": ("refmodel", "exploration", "runtime monitor: reference-model comparator over generated sparse-mode histories with reopen points",
         "Seeded single-bucket histories with segment sizes of a few hundred bytes (most keys in sealed segments reached through the on-disk index files), Close/Open every ~15 transactions; Get/GetAll/RangeScan/PrefixScan (no limit and huge limit) compared with the model.",
         "Single filename-safe bucket; the ambiguous bucket+key concatenation is C04."),
 "C08": ("refmodel", "exploration", "runtime monitor: self-comparison of full observations before Close and after Open over unconstrained generated histories",
         "No model: any history of calls that returned success (incl. multi-operation transactions, no-op operations, failed transactions) must read back identically after a clean reopen, in every index mode that supports the structures used.",
         "The observation universe covers every bucket/key the generator can write."),
 "C09": ("crashfs", "fault_enumeration", "fault enumeration: every crash/torn image of monitored workloads + exactly-full segments + clean-close points of dirty histories, opened with the real Open",
         "Enumerates every file-mutation point the verif hook reports for each workload and every torn prefix at record-field boundaries; 24 exactly-full directories per case; oracle is Open's error/panic only.",
         "Crash model as C10. Sparse-mode crash images are a known finding (KF-SPARSE-CRASH-OPEN)."),
 "C10": ("crashfs", "fault_enumeration", "fault enumeration over a recorded file-mutation event log: every crash point and torn prefix -> image -> real Open -> full observation vs model of the committed prefix",
         "One execution yields every process-crash image of that execution (no process is killed: the directory content at the event IS the crash image); each is recovered by the real code and compared with the model states allowed by the property.",
         "Page cache survives a process crash; torn write = prefix. Sparse-mode images are a known finding (KF-SPARSE-CRASH); RAM-mode images must all pass."),
 "C11": ("crashfs", "fault_enumeration", "fault enumeration: durable-shadow power-loss images (per-file content at last completed sync, plus subsets/torn prefixes of unsynced writes) at every event, recovered by the real Open",
         "The event log carries every sync; dropping or misplacing a Sync changes the shadow and shows as a lost committed transaction at the first commit after it.",
         "Disk model as stated in the property; a file's sync makes its directory entry durable. Sparse-mode images are a known finding (KF-SPARSE-POWER)."),
 "C12": ("crashfs", "fault_enumeration", "fault injection through the verif FS hook (error / partial write at the j-th file operation of a Commit, for every j) + reference-model no-effect oracle in the process and after reopen; reflection-enumerated Tx API in read-only and finished transactions",
         "Enumerates, per generated transaction, every position j of an injected I/O fault until the commit gets through, plus fn-error after every j, rollback, oversize at first/middle/last; the full observation must equal the model state before the fault.",
         "Faults are injected before the real operation (which is skipped). Sparse-mode I/O-fault and in-doubt cases are known findings (KF-SPARSE-FAULT, KF-SPARSE-INDOUBT)."),
 "C13": ("refmodel", "exploration", "runtime monitor: sequential reference model per operation inside multi-operation write transactions, with an executable alternative model as known-finding explainer",
         "Generated transactions read, peek and pop what they just wrote; every returned value and the state after Commit are compared with sequential execution. A mismatch is attributed to the known finding only if the alternative model (operations evaluated on the committed pre-state, invalid ones skipped at apply time) reproduces it exactly.",
         "Known finding KF-C13-COMMITTED-VIEW: the property does not hold on this code base (architectural); the check still reports any deviation the alternative model cannot reproduce."),
 "C19": ("refmodel", "exploration", "differential runtime monitor: one generated history executed under every storage configuration, results compared call by call and after reopen",
         "No model: 24 configurations (RWMode x StartFileLoadingMode x SyncEnable x three index modes) for KV histories, 8 for structure histories; any divergence in a call's result class/value or in the reopened contents is a violation.",
         "Error texts are not compared; SPop is excluded because its result is random by design."),
 "C20": ("refmodel", "exploration", "runtime monitor: reflection-driven API fuzzer with boundary-value pools and panic/fatal catcher",
         "Every exported Tx method in four call states (read-only, writable then Commit/Rollback, after Commit, after Rollback), DB-level calls before and after Close, Open with hostile options; a recovered panic or a dead worker process is a violation attributed to the exact call sequence.",
         "Fatal runtime errors are caught as process death by the driver; path arguments are confined to the scratch directory."),
 "C21": ("codec", "fault_enumeration", "fault enumeration on stored records: round trip + every single-bit flip + every truncation length, read back through the library's own readers",
         "For each generated record all 8n single-bit flips and all n truncation lengths are applied to the stored bytes; allowed outcomes are error, absent, or the identical record.",
         "CRC-32 detects all single-bit errors of a fixed-length message; flips in length fields rely on no checksum collision (2^-32 per read)."),
 "C15": ("refmodel", "exploration", "runtime monitor: reference-model full observation immediately before/after every Merge, after later writes and after reopen, plus index structure walkers; injected failed commits leave uncommitted records in the log",
         "Seeded histories with small segments (5-80 files merged), Merge at four kinds of points; one scenario class per structure kind so the list finding cannot hide KV/set/sorted-set regressions.",
         "No concurrent transaction (that is C17). Lists are a known finding (KF-MERGE-LIST)."),
 "C16": ("crashfs", "fault_enumeration", "fault enumeration: every file-mutation event inside Merge (and every torn prefix of its writes) -> crash image -> real Open -> full observation vs contents before Merge",
         "Same image construction as C10, restricted to the events between Merge's first and last file operation.",
         "Crash model as C10. Lists and positional sorted-set removals are known findings (KF-MERGE-CRASH-LIST, KF-MERGE-CRASH-ZPOP)."),
 "C22": ("refmodel", "exploration", "runtime monitor: 3x3 creator-mode x reopen-mode matrix over directory states, Open's verdict plus byte-level directory digest before/after, full observation when the modes are compatible",
         "Directory states: never opened, opened and closed, written, many segments, merged, crashed (process-crash images).",
         "KV data only."),
 "C03": ("refmodel", "exploration", "runtime monitor: reference-model comparator with an exhaustive (prefix, offset, limit, regexp) sweep per generated state",
         "States with 30-60 % dead keys in all three index modes; every prefix x offset 0..n+1 x limit {-1,1..n+1} compared with take(limit, drop(offset, live keys)).",
         "limit 0 and < -1 are outside the domain. Sparse-mode paging is a known finding (KF-SPARSE-PAGING*); unpaged sparse scans and all RAM-mode calls must pass."),
 "C04": ("refmodel", "exploration", "runtime monitor: non-interference self-comparison (other buckets' full observation unchanged by a single-bucket transaction) plus reference model, over adversarial bucket names",
         "Names that are prefixes of each other / of keys, coinciding bucket+key concatenations, the empty name; KV in all modes, structures in KeyVal.",
         "Sparse mode with prefix-related names is a known finding (KF-SPARSE-COMPOSITE-KEY), attached to its own scenario class."),
 "C05": ("refmodel", "exploration", "runtime monitor: Redis-list reference model; bounded-exhaustive state x operation x argument sweep on the exported list type plus one-operation-per-transaction histories with full observation",
         "Exhaustive for the bounded scope on ds/list.List (781 states x 3 construction paths x all arguments, all short sequences), random long sequences, and transaction-level histories with reopen; every call result and resulting list compared with the model.",
         "Model tolerates the documented error-instead-of-clamp choices; a panic is never tolerated."),
 "C06": ("refmodel", "exploration", "runtime monitor: mathematical-set reference model; BFS over all reachable states of the exported set type x every operation, plus transaction-level histories with reopen",
         "Exhaustive for the bounded scope on ds/set.Set (81 states, all ops/args, all short sequences) plus transaction histories covering SAdd/SRem/SPop/SMove* and every read; SMove durability checked through reopen.",
         "SPop is non-deterministic in the model (any member); empty set and missing set are the same observation."),
 "C07": ("refmodel", "exploration", "runtime monitor: (score,key)-ordered reference model + skip-list structural walker + node-identity check, bounded-exhaustive over states x layouts x arguments, plus transaction histories",
         "All 625 states x several random skip-list layouts x every operation and argument; walker (order, spans==ranks, backward chain, Dict<=>list) after every mutation; every returned node must be the registered member.",
         "Finite scores only; rank semantics as documented on GetByRankRange (1-based, negative from the end, clamped)."),
 "C14": ("conc", "exploration", "runtime monitor under the Go race detector: concurrent View/Update workloads with yields injected at the verif hook points; client-boundary transaction histories checked for strict serializability with porcupine; snapshot, sequence-key, panic and lock-deadlock oracles",
         "2-16 goroutines, 1-3 databases open in one process (all index modes), yield probability 0/0.05/0.3; transaction = one porcupine operation, partitioned per database and shard, unique written values; race reports are collected with halt_on_error=0 and deduplicated by outermost entry-point pair.",
         "Every schedule is sampled, not enumerated; the race detector sees only executed paths. Transactions are shaped so that C13's known finding (reads do not see the transaction's own writes) cannot influence the verdict. A case that exceeds its wall-clock watchdog is inconclusive unless the goroutine dump shows every library goroutine parked on the database lock."),
 "C17": ("conc", "exploration", "runtime monitor under the Go race detector: the C14 workload and oracles with 1-2 goroutines calling Merge in a loop; Merge is not an operation of the sequential model, so it has to be invisible",
         "RAM index modes with segments of 150-500 bytes so that every Merge has files to work on; yields at Merge's hook points (per entry, before rewrite, before remove) and inside Commit; thousands of merges overlap the transactions of one run.",
         "KV and sets only (sequential Merge preserves those; lists are C15's known finding). The defect found by this check (Merge ran without the database lock) is fixed in /repo (c6fe1e5)."),
 "C18": ("conc", "exploration", "runtime monitor under the Go race detector: Backup while 0-8 writers execute a script indexed by an in-database sequence key; the backup is opened with the real Open and fully observed",
         "The state after n commits is the deterministic S(n); the opened backup must equal S(n_b) for its own sequence value n_b, and n_b must lie between the commits returned when Backup was called and the commits started when it returned; all index modes and RWModes.",
         "SPop (random by design) is left out of the script."),
 "C01": ("refmodel", "exploration", "runtime monitor: reference-model comparator (ordered map with TTL) over generated histories + B+ tree structural walker",
         "Thousands of seeded histories (small segments, shared-prefix keys, TTL on both sides of expiry, reopen points) run against the real DB; every read result is compared with an independent model. Held = on the executions produced.",
         "Trusts the reference model's reading of the documented semantics; expiry cases are kept >=10^6 s from the boundary."),
}

NA_REASON = "check under construction (framework being built); will be claimed once its command exists"

def main():
    props = [json.loads(l)["id"] for l in open(os.path.join(ROOT, "properties.jsonl"))]
    hooks = subprocess.run(["git", "-C", "/repo", "log", "--format=%H %s"], capture_output=True, text=True).stdout.splitlines()
    hook_commits = [l.split()[0] for l in hooks if l.split(" ", 1)[1].startswith("verif:")]
    checks = []
    na = []
    for p in props:
        if p not in T:
            na.append({"property_id": p, "reason": NA_REASON})
            continue
        eng, level, tech, text, note = T[p]
        checks.append({
            "property_id": p,
            "quick_cmd": "./check %s quick" % p,
            "thorough_cmd": "./check %s thorough" % p,
            "evidence_file": "/verif/evidence/%s.json" % p,
            "replay_cmd_template": "./check replay {path}",
            "engine": eng,
            "level_claimed": {"category": level, "text": text, "design_ref": "DESIGN.md section 3, " + p},
            "level_note": note,
            "technique": tech,
        })
    m = {
        "version": 1,
        "setup_cmd": "./check build",
        "hooks": {
            "guard": "verif",
            "enable": "go build -tags verif (the harness module /verif/harness replaces github.com/xujiajun/nutsdb => /repo, so every build compiles /repo's working tree with the hooks on)",
            "baseline_off_cmd": "cd /repo && GOFLAGS=-mod=mod GOPROXY=off GOSUMDB=off GOTOOLCHAIN=local go test -json -vet=off -count=1 -timeout 25m ./...",
            "source_commits": hook_commits,
            "add_only": True,
        },
        "engines": [
            {"name": "refmodel", "path": "harness/ (model.go run.go gen.go obs.go)", "kind_free_text": "sequential histories against a reference model with full observations and structural walkers"},
            {"name": "crashfs", "path": "harness/ (fsmon.go crash.go)", "kind_free_text": "file-mutation event log -> crash / torn / power-loss images -> recovery oracle; fault injector"},
            {"name": "conc", "path": "harness/ (conc.go)", "kind_free_text": "concurrent workloads under the Go race detector, recorded histories checked with porcupine"},
            {"name": "codec", "path": "harness/ (codec.go)", "kind_free_text": "record round trip, every single-bit flip and truncation"},
        ],
        "checks": checks,
        "not_applicable": na,
        "notes": "All checks are runtime monitors over executions of the real code in /repo (build tag verif). See DESIGN.md.",
    }
    for e in m["engines"]:
        e["serves_properties"] = [c["property_id"] for c in checks if c["engine"] == e["name"]]
    json.dump(m, open(os.path.join(ROOT, "MANIFEST.json"), "w"), indent=1)
    print("MANIFEST.json: %d checks, %d not_applicable" % (len(checks), len(na)))

if __name__ == "__main__":
    main()
