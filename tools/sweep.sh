#!/bin/bash
# tools/sweep.sh <tier> <seed> [<seed> ...]   - runs every registered check at the given seeds, one line per run.
# Exit 0 iff every run exited 0.  Used for clean sweeps (false-alarm hunting) and for timing the thorough tier.
tier=$1; shift
cd "$(dirname "$0")/.."
./check build || exit 2
rc=0
for seed in "$@"; do
  for i in $(seq -w 1 22); do
    id=C$i
    t0=$(date +%s)
    out=$(VERIF_SEED=$seed ./check $id $tier 2>&1); code=$?
    t1=$(date +%s)
    echo "seed=$seed $id $tier exit=$code wall=$((t1-t0))s $(echo "$out" | grep -c '^VIOLATION') violation-lines $(echo "$out" | grep -c '^KNOWN-FINDING') kf-lines $(echo "$out" | grep -o 'verdicts map\[[^]]*\]')"
    if [ $code != 0 ]; then rc=1; echo "$out" | grep -E "signature|HARNESS|harness:" | sort | uniq -c | head -12; fi
  done
done
exit $rc
