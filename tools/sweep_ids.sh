#!/bin/bash
# tools/sweep_ids.sh <tier> <seed> <ID> [<ID> ...]  - as tools/sweep.sh, for the listed checks only
tier=$1; seed=$2; shift 2
cd "$(dirname "$0")/.."
./check build || exit 2
rc=0
for id in "$@"; do
  t0=$(date +%s)
  out=$(VERIF_SEED=$seed ./check $id $tier 2>&1); code=$?
  t1=$(date +%s)
  echo "seed=$seed $id $tier exit=$code wall=$((t1-t0))s $(echo "$out" | grep -c '^VIOLATION') violation-lines $(echo "$out" | grep -c '^KNOWN-FINDING') kf-lines $(echo "$out" | grep -o 'verdicts map\[[^]]*\]')"
  if [ $code != 0 ]; then rc=1; echo "$out" | grep -E "signature|HARNESS|harness:" | sort | uniq -c | head -12; fi
done
exit $rc
