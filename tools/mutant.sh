#!/bin/bash
# tools/mutant.sh <name> <patch.diff> <tier> <ID> [<ID> ...]
#
# Runs checks of this framework against a *scratch worktree* of /repo with <patch.diff> applied, without
# touching /repo, /verif/evidence or /verif/replays (so it can run while other work goes on).  Used only to
# measure what the checks detect on seeded changes (/verif/seeded/*); the registered commands in
# MANIFEST.json always build from /repo itself.
#
# Prints one line per check:  <name> <ID> <tier> exit=<code> [sigs...]   and leaves logs in $MUT_OUT/<name>/.
# Env: MUT_OUT (default /dev/shm/mut-out), VERIF_SEED, MUT_KEEP=1 keeps the scratch tree.
set -u
name=$1; patch=$(readlink -f "$2"); tier=$3; shift 3
export GOFLAGS=-mod=mod GOPROXY=off GOSUMDB=off GOTOOLCHAIN=local
VERIF=$(cd "$(dirname "$0")/.." && pwd)
OUT=${MUT_OUT:-/dev/shm/mut-out}/$name
W=/dev/shm/mut-work/$name
rm -rf "$W" "$OUT"; mkdir -p "$W" "$OUT"
git -C /repo worktree prune >/dev/null 2>&1
git -C /repo worktree add --detach "$W/nutsdb" HEAD >/dev/null 2>&1 || { echo "$name: cannot create worktree"; exit 2; }
cleanup() {
  if [ "${MUT_KEEP:-}" = "" ]; then
    git -C /repo worktree remove --force "$W/nutsdb" >/dev/null 2>&1
    rm -rf "$W"
  fi
}
trap cleanup EXIT
if [ "$patch" != "/dev/null" ]; then
  git -C "$W/nutsdb" apply "$patch" 2>/dev/null || git -C "$W/nutsdb" apply -3 "$patch" >/dev/null 2>&1 || { echo "$name: patch does not apply"; exit 2; }
fi
# private VERIF_ROOT: harness copy with the replace directive pointing at the scratch tree
mkdir -p "$W/root/bin" "$W/root/evidence"
cp "$VERIF/KNOWN_FINDINGS.txt" "$W/root/"
cp -r "$VERIF/harness" "$W/root/harness"
sed -i "s#=> /repo\$#=> $W/nutsdb#" "$W/root/harness/go.mod"
cp -f "$W/nutsdb/go.sum" "$W/root/harness/go.sum"
need_race=0; need_plain=0
for id in "$@"; do case $id in C14|C17|C18) need_race=1;; *) need_plain=1;; esac; done
if [ $need_plain = 1 ]; then (cd "$W/root/harness" && go build -tags verif -o "$W/root/bin/vcheck" .) >"$OUT/build.log" 2>&1 || { echo "$name: BUILD FAILED (plain)"; cat "$OUT/build.log" | head -20; exit 2; }; fi
if [ $need_race = 1 ]; then (cd "$W/root/harness" && go build -tags verif -race -o "$W/root/bin/vcheck-race" .) >"$OUT/build-race.log" 2>&1 || { echo "$name: BUILD FAILED (race)"; head -20 "$OUT/build-race.log"; exit 2; }; fi
rc_all=0
for id in "$@"; do
  bin=vcheck; case $id in C14|C17|C18) bin=vcheck-race;; esac
  VERIF_ROOT="$W/root" "$W/root/bin/$bin" "$id" "$tier" >"$OUT/$id.log" 2>&1
  rc=$?
  sigs=$(grep -o 'signature: .*' "$OUT/$id.log" | sed 's/signature: //' | sort -u | head -4 | tr '\n' ' ')
  echo "$name $id $tier exit=$rc $sigs"
  [ $rc != 0 ] && rc_all=1
  cp -r "$W/root/replays/$id" "$OUT/replays-$id" 2>/dev/null
done
exit $rc_all
