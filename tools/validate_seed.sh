#!/bin/bash
# tools/validate_seed.sh <dir with patch.diff + demo> <name> [race]
# Confirms a seeded change: applies to /repo HEAD, builds, passes the unedited suite, its demo fails with it
# and passes without it.  Everything runs in a scratch worktree inside a private mount namespace with a
# private /tmp (the repo's tests use fixed /tmp/nutsdbtest* directories).
set -u
src=$(readlink -f "$1"); name=$2; race=${3:-}
W=/dev/shm/seedval/$name
rm -rf "$W"; mkdir -p "$W/tmp/seed/${name%-*}" "$W/gocache"
git -C /repo worktree prune
git -C /repo worktree add --detach "$W/nutsdb" HEAD >/dev/null 2>&1 || { echo "$name: worktree failed"; exit 2; }
trap 'git -C /repo worktree remove --force "$W/nutsdb" >/dev/null 2>&1; rm -rf "$W"' EXIT
demo=$(ls "$src" | grep -E "\.go(\.txt)?$" | head -1)
pkgline=$(grep -m1 '^package ' "$src/$demo" | awk '{print $2}')
case $pkgline in nutsdb) sub=.;; zset) sub=ds/zset;; list) sub=ds/list;; set) sub=ds/set;; main) sub=MAIN;; *) sub=.;; esac
run() { # run a command in the worktree with private /tmp
  unshare -rm sh -c "mount --bind $W/tmp /tmp && cd $W/nutsdb && export GOFLAGS=-mod=mod GOPROXY=off GOSUMDB=off GOTOOLCHAIN=local GOCACHE=/root/.cache/go-build TMPDIR=/tmp && $*"
}
demo_cmd="go test -tags verif -vet=off -count=1 $race -timeout 900s -run 'Demo' ./$sub"
res=""
dest=${demo%.txt}
cp "$src/$demo" "$W/nutsdb/$sub/$dest"
run "$demo_cmd" >"$W/demo_clean.log" 2>&1; rc_clean=$?
git -C "$W/nutsdb" apply "$src/patch.diff" 2>"$W/apply.log" || { echo "$name: APPLY-FAILED $(head -2 $W/apply.log)"; exit 1; }
run "$demo_cmd" >"$W/demo_mut.log" 2>&1; rc_mut=$?
rm -f "$W/nutsdb/$sub/$dest"
run "go build ./... && go vet -tags verif ./... >/dev/null 2>&1; go test -vet=off -count=1 -timeout 900s ./..." >"$W/suite.log" 2>&1; rc_suite=$?
nfail=$(grep -c -- '--- FAIL' "$W/suite.log")
echo "$name: demo_clean=$rc_clean demo_mut=$rc_mut suite=$rc_suite suite_fail_lines=$nfail"
mkdir -p /dev/shm/seedval-logs/$name; cp "$W"/*.log /dev/shm/seedval-logs/$name/
[ $rc_clean = 0 ] && [ $rc_mut != 0 ] && [ $rc_suite = 0 ]
