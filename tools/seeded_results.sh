#!/bin/bash
# tools/seeded_results.sh  - runs every seeded change against its owning property's quick check (scratch worktrees,
# four at a time) and writes seeded/RESULTS.txt.  Takes about an hour.
cd "$(dirname "$0")/.."
out=seeded/RESULTS.txt
tmp=$(mktemp)
for d in seeded/*/; do n=$(basename $d); p=${n%%-*}; echo "tools/mutant.sh $n $d/patch.diff quick $p"; done | xargs -P 4 -I{} sh -c '{}' 2>&1 | sort > $tmp
{
  echo "# owning quick check against each seeded change (tools/mutant.sh, scratch worktree of /repo $(git -C /repo log --format=%h -1), /verif $(git log --format=%h -1))"
  echo "# exit=1: the check reported a VIOLATION (signatures follow); exit=0: not detected by the owning check (see DESIGN.md section 8)"
  cut -c1-400 $tmp
  echo "# detected: $(grep -c 'exit=1' $tmp) of $(grep -c 'exit=' $tmp)"
} > $out
rm -f $tmp
tail -1 $out
